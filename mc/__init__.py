"""Bounded exhaustive exploration of aioesphomeapi under a fully controlled environment."""
