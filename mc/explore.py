"""Stateless, exhaustive exploration of choice sequences with prefix replay.

A harness provides

    fresh()                    -> world            (new loop, new sockets, new objects under test)
    enabled(world)             -> list of labels   (canonical order; JSON-able; [] = execution over)
    cost(label)                -> int              (deviation cost of taking ``label``; label-only)
    apply(world, label)        -> None             (perform the transition on the real code)
    verdict(world)             -> list[str]        (violated clauses so far; evaluated after every step)
    finish(world)              -> list[str]        (end-of-execution audit; world is still alive)
    fingerprint(world)         -> hashable | None  (None = no pruning)
    observe(world)             -> JSON-able        (observation trace, for determinism checks / replays)
    close(world)               -> None

The explorer enumerates *every* sequence of labels with total cost <= bound and length <= depth.
A state is the label sequence that reaches it; nothing is copied, prefixes are replayed on a
fresh world, and a replay whose enabled set differs from the recorded one is a harness error.
"""

from __future__ import annotations

from dataclasses import dataclass, field
import hashlib
import json
import multiprocessing as mp
import os
import time
from typing import Any

from .vloop import HarnessError


@dataclass
class Stats:
    executions: int = 0
    transitions: int = 0
    replayed_transitions: int = 0
    states: int = 0
    pruned: int = 0
    max_depth: int = 0
    depth_capped: int = 0
    outcomes: dict[str, int] = field(default_factory=dict)
    violations: list[dict[str, Any]] = field(default_factory=list)
    samples: list[Any] = field(default_factory=list)
    time_capped: bool = False
    fingerprints: set[Any] = field(default_factory=set)
    tags: dict[str, int] = field(default_factory=dict)
    diverged: int = 0  # prefix replays whose enabled set differed from the recorded one (the code under test is not deterministic)
    divergence: str = ""

    def merge(self, o: "Stats") -> None:
        self.executions += o.executions
        self.transitions += o.transitions
        self.replayed_transitions += o.replayed_transitions
        self.pruned += o.pruned
        self.max_depth = max(self.max_depth, o.max_depth)
        self.depth_capped += o.depth_capped
        for k, v in o.outcomes.items():
            self.outcomes[k] = self.outcomes.get(k, 0) + v
        for k, v in o.tags.items():
            self.tags[k] = self.tags.get(k, 0) + v
        self.violations.extend(o.violations)
        if len(self.samples) < 6:
            self.samples.extend(o.samples[: 6 - len(self.samples)])
        self.time_capped = self.time_capped or o.time_capped
        self.diverged += o.diverged
        self.divergence = self.divergence or o.divergence
        self.fingerprints |= o.fingerprints
        self.states = len(self.fingerprints)


_KEY_CACHE: dict[Any, str] = {}


def _key(label: Any) -> str:
    """Canonical text of a label (JSON); memoised for the common str / flat-list labels."""
    if isinstance(label, str):
        k = _KEY_CACHE.get(label)
        if k is None:
            k = _KEY_CACHE[label] = json.dumps(label)
        return k
    if isinstance(label, list) and all(isinstance(x, (str, int)) for x in label):
        t = tuple(label)
        k = _KEY_CACHE.get(t)
        if k is None:
            k = _KEY_CACHE[t] = json.dumps(label, sort_keys=True, default=str)
        return k
    return json.dumps(label, sort_keys=True, default=str)


class _Diverged(Exception):
    pass


class Explorer:
    def __init__(
        self,
        harness: Any,
        *,
        depth: int,
        bound: int,
        deadline: float | None = None,
        max_violations: int = 5,
        want_samples: int = 3,
    ) -> None:
        self.h = harness
        self.depth = depth
        self.bound = bound
        self.deadline = deadline
        self.max_violations = max_violations
        self.want_samples = want_samples
        self.stats = Stats()
        self.seen: dict[Any, tuple[int, int]] = {}  # fingerprint -> (depth, cost) best seen

    # --- one execution ---------------------------------------------------------------------
    def _run(self, prefix: list[Any], prefix_enabled: list[list[str]] | None) -> dict[str, Any]:
        """Replay ``prefix`` then extend with the first enabled label until the end.

        Returns the trace: labels, enabled-sets, costs, and where to branch.
        """
        h = self.h
        w = h.fresh()
        st = self.stats
        labels: list[Any] = []
        enabled_at: list[list[Any]] = []
        costs: list[int] = []
        cost_before: list[int] = []
        total = 0
        violated: list[str] = []
        pruned_at: int | None = None
        try:
            i = 0
            while True:
                en = h.enabled(w)
                if i < len(prefix):
                    if prefix_enabled is not None and i < len(prefix_enabled):
                        if en != prefix_enabled[i]:
                            # The same choices led somewhere else: never a verdict by itself.  The branch is abandoned and counted;
                            # a run that ends with divergences and without a violation is a harness error (see explore_parallel).
                            raise _Diverged(
                                "nondeterminism during prefix replay at step "
                                f"{i}: enabled {en!r} != recorded {prefix_enabled[i]!r}"
                            )
                    choice = prefix[i]
                    if choice not in en:
                        raise _Diverged(f"replay: label {choice!r} not enabled at step {i}: {en!r}")
                else:
                    # default continuation: first label we can afford
                    choice = None
                    if i < self.depth:
                        for cand in en:
                            if total + h.cost(cand) <= self.bound:
                                choice = cand
                                break
                    elif en:
                        st.depth_capped += 1
                    if choice is None:
                        enabled_at.append(en)
                        break
                c = h.cost(choice)
                enabled_at.append(en)
                cost_before.append(total)
                h.apply(w, choice)
                labels.append(choice)
                costs.append(c)
                total += c
                if i < len(prefix) - 1:
                    st.replayed_transitions += 1
                else:
                    st.transitions += 1
                i += 1
                v = h.verdict(w)
                if v:
                    violated = v
                    break
                if i >= len(prefix):
                    fp = h.fingerprint(w)
                    if fp is not None:
                        # the monitor state must be part of fp (harness contract)
                        best = self.seen.get(fp)
                        if best is not None and best[0] <= i and best[1] <= total:
                            st.pruned += 1
                            pruned_at = i
                            break
                        self.seen[fp] = (i, total)
                        st.fingerprints.add(fp)
            if not violated and pruned_at is None:
                violated = h.finish(w)
            st.executions += 1
            st.max_depth = max(st.max_depth, len(labels))
            out = h.outcome(w) if hasattr(h, "outcome") else "done"
            st.outcomes[out] = st.outcomes.get(out, 0) + 1
            if hasattr(h, "tags"):
                for t in h.tags(w):
                    st.tags[t] = st.tags.get(t, 0) + 1
            obs = None
            if violated or len(st.samples) < self.want_samples:
                obs = h.observe(w)
                if not violated and pruned_at is None:
                    st.samples.append({"choices": labels, "observations": obs, "outcome": out})
            return {
                "labels": labels,
                "enabled": enabled_at,
                "cost_before": cost_before,
                "costs": costs,
                "violated": violated,
                "obs": obs,
                "pruned_at": pruned_at,
            }
        finally:
            h.close(w)

    # --- the search ---------------------------------------------------------------------------
    def explore(self, prefix: list[Any] | None = None) -> Stats:
        stack: list[tuple[list[Any], list[list[str]] | None]] = [(list(prefix or []), None)]
        st = self.stats
        while stack:
            if self.deadline is not None and time.monotonic() > self.deadline:
                st.time_capped = True
                break
            pfx, pfx_en = stack.pop()
            try:
                tr = self._run(pfx, pfx_en)
            except _Diverged as e:
                st.diverged += 1
                st.divergence = st.divergence or str(e)[:400]
                continue
            if tr["violated"]:
                st.violations.append(
                    {"choices": tr["labels"], "violated": tr["violated"], "observations": tr["obs"]}
                )
                if len(st.violations) >= self.max_violations:
                    break
                # do not extend below a violating prefix
            labels = tr["labels"]
            en_keys = tr["enabled"]  # the label lists themselves (JSON-able values, compared by equality)
            h = self.h
            # branch at every position not fixed by the prefix
            new: list[tuple[list[Any], list[list[str]] | None]] = []
            limit = len(labels)
            if tr["violated"]:
                limit = len(labels) - 1  # alternatives to the violating step are still explored
            for i in range(max(len(pfx), 0), len(tr["enabled"])):
                if i >= self.depth:
                    break
                if i > limit:
                    break
                has_taken = i < len(labels)
                taken = labels[i] if has_taken else None
                before = tr["cost_before"][i] if i < len(tr["cost_before"]) else sum(tr["costs"])
                for cand in tr["enabled"][i]:
                    if has_taken and cand == taken:
                        continue
                    c = h.cost(cand)
                    if before + c > self.bound:
                        continue
                    # labels ordered before the taken one that were skipped for cost stay skipped
                    new.append((labels[:i] + [cand], en_keys[: i + 1]))
            stack.extend(reversed(new))
        st.states = len(st.fingerprints)
        return st


def _worker(args: tuple[Any, ...]) -> Stats:
    factory, fargs, prefix, depth, bound, deadline_left, max_viol = args
    h = factory(*fargs)
    ex = Explorer(
        h,
        depth=depth,
        bound=bound,
        deadline=(time.monotonic() + deadline_left) if deadline_left else None,
        max_violations=max_viol,
    )
    # explore only extensions of prefix: run prefix itself in exactly one worker (the caller)
    st = ex.explore(prefix)
    return st


def explore_parallel(
    factory: Any,
    fargs: tuple[Any, ...],
    *,
    depth: int,
    bound: int,
    budget_s: float | None = None,
    workers: int | None = None,
    split_depth: int = 1,
    max_violations: int = 5,
) -> Stats:
    """Partition the search at ``split_depth`` over a process pool.

    The top of the tree (sequences shorter than split_depth that are complete executions) is
    explored by the parent; every sequence of exactly split_depth labels is a job.
    """
    workers = workers or min(16, os.cpu_count() or 1)
    h = factory(*fargs)
    # self-check before any verdict is believed: the default execution of this harness, run twice, must give identical observations
    obs = []
    for _ in range(2):
        w0 = h.fresh()
        try:
            steps = 0
            while steps < min(depth, 6):
                en0 = h.enabled(w0)
                cand = next((x for x in en0 if h.cost(x) == 0), None)
                if cand is None or h.verdict(w0):
                    break
                h.apply(w0, cand)
                steps += 1
            # compared as a multiset: wake-ups that a closing connection schedules from a *set* of waiters may run in either order
            ob = h.observe(w0)
            ob = sorted(json.dumps(x, sort_keys=True, default=str) for x in ob) if isinstance(ob, list) else ob
            obs.append(json.dumps(ob, sort_keys=True, default=str))
        finally:
            h.close(w0)
    if obs[0] != obs[1]:
        i = next((k for k, (x, y) in enumerate(zip(obs[0], obs[1])) if x != y), min(len(obs[0]), len(obs[1])))
        raise HarnessError("determinism self-check failed: the same schedule executed twice gave different observations: "
                           f"...{obs[0][max(0, i - 120): i + 80]!r} vs ...{obs[1][max(0, i - 120): i + 80]!r}")
    # enumerate all label sequences of length split_depth (within the bound) in the parent
    top = Explorer(h, depth=split_depth, bound=bound, max_violations=max_violations)
    jobs: list[list[Any]] = []
    total = Stats()

    def rec(prefix: list[Any], cost: int) -> None:
        w = h.fresh()
        try:
            for lab in prefix:
                h.apply(w, lab)
            if h.verdict(w):
                jobs.append(prefix)  # let a worker report it properly
                return
            en = h.enabled(w)
            cands = [(lab, h.cost(lab)) for lab in en]
        finally:
            h.close(w)
        if len(prefix) == split_depth or not cands:
            jobs.append(prefix)
            return
        any_child = False
        for lab, c in cands:
            if cost + c <= bound:
                any_child = True
                rec(prefix + [lab], cost + c)
        if not any_child:
            jobs.append(prefix)

    rec([], 0)
    del top
    t_left = budget_s
    args = [(factory, fargs, j, depth, bound, t_left, max_violations) for j in jobs]
    if workers <= 1 or len(jobs) <= 1:
        results = [_worker(a) for a in args]
    else:
        ctx = mp.get_context("fork")
        with ctx.Pool(min(workers, len(jobs))) as pool:
            results = pool.map(_worker, args, chunksize=1)
    for r in results:
        total.merge(r)
    total.tags["jobs"] = len(jobs)
    # every reported violation is re-executed from scratch on a fresh world and must fail again before it is believed
    confirmed = []
    for v in total.violations:
        w = h.fresh()
        try:
            again: list[str] = []
            try:
                for lab in v["choices"]:
                    h.apply(w, lab)
                    again = h.verdict(w)
                    if again:
                        break
                else:
                    again = h.finish(w)
            except Exception as e:  # noqa: BLE001
                again = []
                total.divergence = total.divergence or f"re-execution of a violating schedule raised {type(e).__name__}: {e}"
        finally:
            h.close(w)
        if again:
            confirmed.append(v)
        else:
            total.diverged += 1
            total.divergence = total.divergence or f"violation {v['violated'][:1]} did not reproduce when its schedule {v['choices']} was re-executed"
    total.tags["violations_reexecuted"] = len(total.violations)
    total.violations = confirmed
    if total.diverged and not total.violations:
        # nothing may pass on top of executions that could not be replayed
        raise HarnessError(f"{total.diverged} prefix replays diverged and no violation was found: {total.divergence}")
    return total


def short_hash(obj: Any) -> str:
    return hashlib.sha256(json.dumps(obj, sort_keys=True, default=str).encode()).hexdigest()[:12]
