"""Simulated network: fake non-blocking TCP sockets, socket-module shim, resolver, zeroconf fakes."""

from __future__ import annotations

import errno
import socket as _real_socket
from typing import Any, Callable

from .vloop import EVENT_READ, EVENT_WRITE, HarnessError, VLoop

EOF = b""


class FakeSocket:
    """A non-blocking TCP socket whose every answer is decided by the environment."""

    def __init__(self, net: "Net", family: int, type_: int, proto: int) -> None:
        self.net = net
        self.family = family
        self.type = type_
        self.proto = proto
        self.fd = net._next_fd
        net._next_fd += 1
        self.closed = False
        self.connect_called: Any = None
        self.connect_result: int | None = None  # None = still in progress, 0 = ok, errno
        self.connect_reported = False  # SO_ERROR has been read after the connect completed
        self.peer_gone = False
        self.inbox: list[Any] = []  # bytes chunk / b"" (EOF) / Exception instance
        self.sent: list[tuple[float, bytes]] = []
        self.send_error: Exception | None = None  # raise on the next send (async flavour)
        self.writable = True  # False: the kernel send buffer is full, send() would block
        self.send_limit: int | None = None  # the next send() accepts only this many bytes (partial write), then the socket is full
        self.opts: list[tuple[int, int, Any]] = []
        self.created_at = net.loop.time()
        self.closed_at: float | None = None
        self.on_send: Callable[[FakeSocket, bytes], None] | None = None
        self.on_recv: Callable[[FakeSocket, Any], None] | None = None
        self.recv_count = 0
        net.sockets.append(self)
        if net.on_socket is not None:
            net.on_socket(self)

    # --- socket API ---------------------------------------------------------------------
    def fileno(self) -> int:
        return -1 if self.closed else self.fd

    def setblocking(self, flag: bool) -> None:
        pass

    def gettimeout(self) -> float:
        return 0.0

    def setsockopt(self, level: int, opt: int, value: Any) -> None:
        if self.net.nodelay_exc is not None and level == _real_socket.IPPROTO_TCP and opt == _real_socket.TCP_NODELAY and self.connect_result == 0:
            # configuring the freshly connected socket fails (the peer reset it right after accepting: EINVAL on some systems)
            raise self.net.nodelay_exc
        self.opts.append((level, opt, value))

    def getsockopt(self, level: int, opt: int) -> int:
        if level == _real_socket.SOL_SOCKET and opt == _real_socket.SO_ERROR:
            if self.connect_result is not None:
                self.connect_reported = True
            return self.connect_result or 0
        return 0

    def bind(self, addr: Any) -> None:
        pass

    def connect(self, address: Any) -> None:
        self.connect_called = address
        self.net.log("connect", fd=self.fd, addr=address[0])
        if self.net.connect_exc is not None:
            # the connect() call itself fails, and not with an OSError (e.g. OverflowError for a port above 65535)
            raise self.net.connect_exc
        raise BlockingIOError(errno.EINPROGRESS, "in progress")

    def getpeername(self) -> Any:
        if self.peer_gone:  # the peer reset the connection right after it was established
            raise OSError(errno.ENOTCONN, "Transport endpoint is not connected")
        return self.connect_called or ("0.0.0.0", 0)

    def getsockname(self) -> Any:
        return ("192.0.2.1", 50000 + self.fd)

    def recv(self, n: int) -> bytes:
        if self.closed:
            raise OSError(errno.EBADF, "recv on closed socket")
        if not self.inbox:
            raise BlockingIOError(errno.EAGAIN, "would block")
        item = self.inbox.pop(0)
        self.recv_count += 1
        if self.on_recv is not None:
            self.on_recv(self, item)
        if isinstance(item, BaseException):
            if isinstance(item, (ConnectionResetError, TimeoutError, BrokenPipeError)):
                self.peer_gone = True  # the kernel has dropped the connection: getpeername() answers ENOTCONN from now on
            raise item
        return item

    def recv_into(self, buf: Any) -> int:
        data = self.recv(len(buf))
        buf[: len(data)] = data
        return len(data)

    def send(self, data: Any) -> int:
        if self.closed:
            raise OSError(errno.EBADF, "send on closed socket")
        if self.send_error is not None:
            err, self.send_error = self.send_error, None
            if isinstance(err, OSError) and err.errno in (errno.EPIPE, errno.ECONNRESET, errno.ETIMEDOUT):
                self.peer_gone = True
            raise err
        if not self.writable:
            raise BlockingIOError(errno.EAGAIN, "send would block")
        if self.send_limit is not None:
            data = bytes(data)[: self.send_limit]
            self.send_limit = None
            self.writable = False
        b = bytes(data)
        self.sent.append((self.net.loop.time(), b))
        self.net.log("send", fd=self.fd, n=len(b))
        if self.on_send is not None:
            self.on_send(self, b)
        return len(b)

    def sendmsg(self, buffers: Any, *a: Any) -> int:
        """What the selector transport uses to flush its queue (a list of buffers in one call)."""
        return self.send(b"".join(bytes(b) for b in buffers))

    def shutdown(self, how: int) -> None:
        pass

    def close(self) -> None:
        if not self.closed:
            self.closed = True
            self.closed_at = self.net.loop.time()
            self.net.log("sock_close", fd=self.fd)

    def detach(self) -> int:
        raise HarnessError("detach not supported")

    # --- environment side ---------------------------------------------------------------
    def sent_bytes(self) -> bytes:
        return b"".join(b for _, b in self.sent)


class SocketShim:
    """Stands in for the ``socket`` module inside ``aiohappyeyeballs.impl`` only."""

    def __init__(self, net: "Net") -> None:
        self._net = net

    def socket(self, family: int = -1, type: int = -1, proto: int = -1, fileno: Any = None) -> FakeSocket:
        return FakeSocket(self._net, family, type, proto)

    def __getattr__(self, name: str) -> Any:
        return getattr(_real_socket, name)


class Net:
    """All sockets of one world plus the resolver; knows how to stage I/O readiness."""

    def __init__(self, loop: VLoop) -> None:
        self.loop = loop
        self._next_fd = 100
        self.sockets: list[FakeSocket] = []
        self.trace: list[tuple[float, str, dict[str, Any]]] = []
        self.on_socket: Callable[[FakeSocket], None] | None = None
        self.connect_exc: BaseException | None = None
        self.nodelay_exc: BaseException | None = None
        self.gai_calls: list[Any] = []
        self.gai_pending: list[tuple[Any, Any]] = []  # (future, (host, port))
        self.gai_answer: Callable[[str, int], Any] | None = None  # immediate answer
        loop.getaddrinfo_impl = self._getaddrinfo
        loop.fsel.poll = self.poll

    def poll(self) -> list[tuple[int, int]]:
        """Level-triggered readiness of every open socket, in socket creation order."""
        out = []
        for s in self.sockets:
            if s.closed:
                continue
            if s.inbox:
                out.append((s.fd, EVENT_READ))
            if s.connect_called is not None and s.connect_result is not None and not s.connect_reported:
                out.append((s.fd, EVENT_WRITE))
            elif s.connect_reported and s.writable:
                out.append((s.fd, EVENT_WRITE))  # only delivered while the transport has a writer registered (buffered data)
        return out

    def log(self, kind: str, **kw: Any) -> None:
        self.trace.append((self.loop.time(), kind, kw))

    # --- resolver -----------------------------------------------------------------------
    async def _getaddrinfo(self, host: Any, port: Any, **kw: Any) -> Any:
        self.gai_calls.append((host, port))
        if self.gai_answer is not None:
            ans = self.gai_answer(host, port)
            if isinstance(ans, BaseException):
                raise ans
            if ans is not NotImplemented:
                return ans
        fut = self.loop.create_future()
        self.gai_pending.append((fut, (host, port)))
        return await fut

    # --- staging helpers ----------------------------------------------------------------
    def readable(self, sock: FakeSocket) -> tuple[int, int]:
        return (sock.fd, EVENT_READ)

    def writable(self, sock: FakeSocket) -> tuple[int, int]:
        return (sock.fd, EVENT_WRITE)

    def open_sockets(self) -> list[FakeSocket]:
        return [s for s in self.sockets if not s.closed]

    def connecting(self) -> list[FakeSocket]:
        return [
            s
            for s in self.sockets
            if not s.closed and s.connect_called is not None and s.connect_result is None
        ]


def v4(addr: str, port: int) -> tuple[Any, ...]:
    return (_real_socket.AF_INET, _real_socket.SOCK_STREAM, _real_socket.IPPROTO_TCP, "", (addr, port))


def v6(addr: str, port: int) -> tuple[Any, ...]:
    return (_real_socket.AF_INET6, _real_socket.SOCK_STREAM, _real_socket.IPPROTO_TCP, "", (addr, port, 0, 0))


# --------------------------------------------------------------------------------------------------
# zeroconf fakes (patched into aioesphomeapi.zeroconf / aioesphomeapi.host_resolver by the harness)
# --------------------------------------------------------------------------------------------------
class ZcLog:
    """Shared record of everything that happened to fake zeroconf objects in one world."""

    def __init__(self) -> None:
        self.events: list[tuple[Any, ...]] = []
        self.instances: list["FakeAsyncZeroconf"] = []
        self.create_error: Exception | None = None  # raise from FakeAsyncZeroconf() (library-created only)
        self.request_script: Callable[["FakeServiceInfo", Any, int], Any] | None = None
        self.requests: list[tuple[str, str]] = []
        self.now: Callable[[], float] = lambda: 0.0
        self.close_script: Any = None  # None | Exception (the next async_close raises it) | "hang" (awaits a future the harness holds)
        self.close_pending: list[Any] = []


class FakeZeroconf:
    """The synchronous ``Zeroconf`` object: only the listener registry is used by the library."""

    def __init__(self, log: ZcLog, label: str = "zc") -> None:
        self.zlog = log
        self.label = label
        self.listeners: list[Any] = []
        self.closed = False
        self.cache: list[tuple[float, Any]] = []  # (virtual instant seen, record): what this instance has heard on the network

    def async_add_listener(self, listener: Any, question: Any) -> None:
        self.listeners.append(listener)
        self.zlog.events.append((self.zlog.now(), "add_listener", self.label))
        if question is None:
            return
        # like the real Zeroconf: a listener registered with question(s) is handed, synchronously, the cached records that answer them
        from zeroconf import RecordUpdate

        questions = question if isinstance(question, (list, tuple)) else [question]
        now = self.zlog.now()
        hits = [r for t, r in self.cache if now - t < float(getattr(r, "ttl", 0)) and any(q.answered_by(r) for q in questions)]
        if hits:
            self.zlog.events.append((now, "replay_cached", self.label, len(hits)))
            listener.async_update_records(self, now * 1000.0, [RecordUpdate(r, None) for r in hits])
            done = getattr(listener, "async_update_records_complete", None)
            if done is not None:
                done()

    def async_remove_listener(self, listener: Any) -> None:
        if listener in self.listeners:
            self.listeners.remove(listener)
        self.zlog.events.append((self.zlog.now(), "remove_listener", self.label))

    def close(self) -> None:
        self.closed = True
        self.zlog.events.append((self.zlog.now(), "sync_close", self.label))


def make_zeroconf_fakes(log: ZcLog) -> tuple[type, type, type]:
    """Classes bound to one world's log: (FakeZeroconfClass, FakeAsyncZeroconfClass, FakeServiceInfoClass)."""

    class _Zeroconf(FakeZeroconf):
        def __init__(self, label: str = "app-sync") -> None:
            super().__init__(log, label)

    class _AsyncZeroconf:
        def __init__(self, zc: Any = None, label: str | None = None, **kw: Any) -> None:
            if zc is None and label is None and log.create_error is not None:
                raise log.create_error
            self.supplied_zc = zc is not None
            self.label = label or ("wrap:" + zc.label if zc is not None else f"lib{len(log.instances)}")
            self.zeroconf = zc if zc is not None else _Zeroconf(self.label)
            self.closed = 0
            log.instances.append(self)  # type: ignore[arg-type]
            log.events.append((log.now(), "create", self.label))

        async def async_close(self) -> None:
            script, log.close_script = log.close_script, None
            if isinstance(script, BaseException):
                log.events.append((log.now(), "async_close_raises", self.label))
                raise script
            if script == "hang":
                import asyncio as _asyncio

                fut = _asyncio.get_running_loop().create_future()
                log.close_pending.append(fut)
                log.events.append((log.now(), "async_close_hangs", self.label))
                await fut
            self.closed += 1
            self.zeroconf.closed = True
            log.events.append((log.now(), "async_close", self.label))

    class _ServiceInfo:
        def __init__(self, type_: str, name: str, server: str | None = None, **kw: Any) -> None:
            # the real constructor validates the names (label length in UTF-8 bytes, control characters) and raises for bad ones
            from zeroconf.asyncio import AsyncServiceInfo as _Real

            _Real(type_, name, server=server, **kw)
            self.type = type_
            self.name = name
            self.server = server
            self.v4: list[str] = []
            self.v6: list[str] = []

        async def async_request(self, zc: Any, timeout: int, **kw: Any) -> bool:
            log.requests.append((self.name, getattr(zc, "label", "?")))
            log.events.append((log.now(), "request", self.name, getattr(zc, "label", "?")))
            if log.request_script is None:
                raise HarnessError(f"unexpected mDNS request for {self.name}")
            ans = log.request_script(self, zc, timeout)
            if hasattr(ans, "__await__"):
                ans = await ans
            if isinstance(ans, BaseException):
                raise ans
            return bool(ans)

        def ip_addresses_by_version(self, version: Any) -> list[Any]:
            from ipaddress import ip_address

            name = getattr(version, "name", str(version))
            if name == "V6Only":
                return [ip_address(a) for a in self.v6]
            if name == "V4Only":
                return [ip_address(a) for a in self.v4]
            return [ip_address(a) for a in self.v6 + self.v4]

    return _Zeroconf, _AsyncZeroconf, _ServiceInfo


FakeAsyncZeroconf = Any
FakeServiceInfo = Any
