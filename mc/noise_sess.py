"""Driver for Noise sessions of the real APIConnection against the reference responder (mc/noise_ref.py)."""

from __future__ import annotations

import struct
from typing import Any

from cryptography.exceptions import InvalidTag

from . import env, noise_ref
from .vloop import HarnessError
from .world import ConnWorld, mk, msg_id

EXPECTED = "mydev"
NAME_VARIANTS = {
    "absent": (None, None),
    "equal": (EXPECTED, None),
    "different": ("otherdev", None),
    "empty": ("", None),
    "equal+mac": (EXPECTED, "aabbccddeeff"),
    "different+mac": ("otherdev", "aabbccddeeff"),
    # near misses: names are compared exactly (case, trailing characters)
    "case": ("MyDev", None),
    "longer": ("mydev1", "aabbccddeeff"),
    # bytes that are not text (a name in another encoding, a corrupted flash): certainly not the expected name
    "not-utf8": (EXPECTED.encode() + b"\xff", None),
    "latin1": ("k\xfcche".encode("latin-1"), "aabbccddeeff"),
}


class Probe:
    def __init__(self, w: ConnWorld) -> None:
        self.w = w
        self.calls: list[tuple[str, bytes]] = []

    def __call__(self, msg: Any) -> None:
        self.calls.append((type(msg).__name__, msg.SerializeToString()))


def app_messages(kinds: tuple[str, ...]) -> list[Any]:
    out = []
    expanded: list[str] = []
    for k in kinds:
        if "*" in k:  # "ST*66000": a long session (the responder's nonce passes 2^16)
            base, n = k.split("*")
            expanded += [base] * int(n)
        else:
            expanded.append(k)
    for i, k in enumerate(expanded):
        if k == "ST":
            out.append(mk("SensorStateResponse", key=10 + i, state=float(i % 1024) + 0.5))
        elif k == "PR":
            out.append(mk("PingRequest"))
        elif k == "TX":
            out.append(mk("TextSensorStateResponse", key=20 + i, state="x" * 40))
        elif k == "LOG":
            out.append(mk("SubscribeLogsResponse", level=3, message=b"m" * 200))
        elif k.startswith("BIG:"):
            # a large message: the encrypted frame is len + 26 bytes long (the 16-bit frame length allows up to 65535)
            out.append(mk("SubscribeLogsResponse", level=3, message=bytes((i * 7 + j) % 251 for j in range(int(k[4:])))))
        else:
            raise HarnessError(k)
    return out


class Session:
    """One world with the client waiting in the Noise hello state and the full honest server stream prepared."""

    def __init__(self, name_variant: str = "equal", expected: str | None = None, app: tuple[str, ...] = ("ST", "PR"),
                 device_psk: bytes | None = None, login: bool = True, early: tuple[str, ...] = (), listener: str = "",
                 hello_name: str | None = None) -> None:
        from aioesphomeapi.core import MESSAGE_TYPE_TO_PROTO
        from aioesphomeapi.api_pb2 import SensorStateResponse

        name, mac = NAME_VARIANTS[name_variant]
        self.w = ConnWorld(noise=True, expected_name=expected, device_name=name, device_psk=device_psk, login=login)
        w = self.w
        assert w.ndev is not None
        w.ndev.mac = mac
        self.probe = Probe(w)
        self.listener = listener
        self.oneshot_calls: list[bytes] = []
        if listener == "lone":
            # the probe leaves sensor states to a lone one-shot listener, which unsubscribes itself from inside its first call:
            # later sensor states have no subscriber
            w.conn.add_message_callback(self.probe, tuple(t for t in MESSAGE_TYPE_TO_PROTO.values() if t is not SensorStateResponse))
        else:
            w.conn.add_message_callback(self.probe, tuple(MESSAGE_TYPE_TO_PROTO.values()))
        if listener:
            unsub: list[Any] = []

            def oneshot(msg: Any) -> None:
                self.oneshot_calls.append(msg.SerializeToString())
                if listener == "lone":
                    self.probe(msg)
                unsub.pop()()

            unsub.append(w.conn.add_message_callback(oneshot, (SensorStateResponse,)))
        w.do_start()
        w.do_tcp_ok()
        w.do_finish_call()
        self.sock = w.sock
        assert self.sock is not None
        w._feed_noise(self.sock)
        self.client_frames_before = len(w.ndev.client_frames)
        # honest server stream, frame by frame (outer frames)
        nd = w.ndev
        self.frames: list[bytes] = [nd.hello_frame(), nd.handshake_frame()]
        # ``early`` = unsolicited frames the responder sends right after its handshake message (they may share a chunk with
        # it); the hello/connect responses are causally after the client's hello request, i.e. after readiness: a chunk
        # never spans self.barrier
        self.early = app_messages(early)
        # hello_name: the name in the (authenticated) HelloResponse, when it is to differ from what the server hello announced
        self.msgs = (self.early + [w.hello_resp(name=hello_name if hello_name is not None else (EXPECTED if expected else ""))]
                     + ([w.connect_resp()] if login else []) + app_messages(app))
        self.plain: list[tuple[str, bytes]] = []
        if nd.r.tx is None:  # the responder could not authenticate the client (different key): no session follows
            self.msgs = []
        n_states = 0
        for m in self.msgs:
            self.frames.append(nd.data_frame(msg_id(type(m).__name__), m.SerializeToString()))
            if type(m).__name__ == "SensorStateResponse":
                n_states += 1
                if listener == "lone" and n_states > 1:
                    self.plain.append(("-", b""))  # nobody is subscribed any more: no delivery for this frame
                    continue
            self.plain.append((type(m).__name__, m.SerializeToString()))
        self.rx_key = nd.r.tx.k if nd.r.tx is not None else None  # what the client must use to decrypt
        self.barrier = sum(len(f) for f in self.frames[: 2 + len(self.early)])

    def ends(self, frames: list[bytes] | None = None) -> list[int]:
        out = []
        pos = 0
        for f in frames if frames is not None else self.frames:
            pos += len(f)
            out.append(pos)
        return out

    def stream(self) -> bytes:
        return b"".join(self.frames)

    def client_app_frames(self) -> int:
        """Number of encrypted application frames the client has written so far (decrypted by the responder)."""
        assert self.w.ndev is not None
        self.w._feed_noise(self.sock)
        return len(self.w.ndev.received)

    deliver_error: str | None = None
    RECYCLED = [False]  # deliver through a transport that hands its one receive buffer (a bytearray) to data_received and reuses it

    def deliver(self, data: bytes) -> None:
        if self.RECYCLED[0] and data:
            proto = self.w.transports[-1].get_protocol()
            if not hasattr(self, "_rxbuf"):
                self._rxbuf = bytearray()
            try:
                self._rxbuf[:] = data
                proto.data_received(self._rxbuf)
                self._rxbuf[:] = b"\xee" * len(data)  # the next read lands in the same storage
            except Exception as e:  # noqa: BLE001
                # the transport cannot reuse its own buffer, or data_received failed on a valid stream
                self.deliver_error = f"{type(e).__name__}: {e}"
                self._rxbuf = bytearray()
            self.w.drain()
            return
        self.w.io_chunk(self.sock, data)
        self.w.drain()

    def close(self) -> None:
        self.w.close()


# ---------------------------------------------------------------------------------------------------------
# Reference receiver: what a conformant client must make of an arbitrary (possibly corrupted) server stream
# ---------------------------------------------------------------------------------------------------------
def reference_receive(stream: bytes, rx_key: bytes | None, expected: str | None, honest_handshake_body: bytes) -> dict[str, Any]:
    """Returns {'delivered': [(type id, payload)], 'failure': class name | 'unconstrained' | None, 'fail_at': offset | None,
    'received_name': str | None, 'ready': bool}.

    failure classes: protocol (marker), handshake (selector / empty hello / error frame), invalid_key (authentication or the
    'Handshake MAC failure' text), bad_name.  'unconstrained' = the stream is malformed in a way the statement does not classify.
    """
    out: dict[str, Any] = {"delivered": [], "failure": None, "fail_at": None, "received_name": None, "ready": False, "ready_at": None}
    pos = 0
    idx = 0
    cs = noise_ref.CipherState(rx_key) if rx_key is not None else None
    n = len(stream)
    while n - pos >= 3:
        if stream[pos] != 1:
            out["failure"], out["fail_at"] = "protocol", pos + 3
            return out
        ln = struct.unpack(">H", stream[pos + 1 : pos + 3])[0]
        if n - pos - 3 < ln:
            break
        body = stream[pos + 3 : pos + 3 + ln]
        end = pos + 3 + ln
        if idx == 0:
            if not body:
                out["failure"], out["fail_at"] = "handshake", end
                return out
            if body[0] != 1:
                out["failure"], out["fail_at"] = "handshake", end
                return out
            i = body.find(b"\x00", 1)
            if i != -1:
                try:
                    name = body[1:i].decode()
                except UnicodeDecodeError:
                    out["failure"], out["fail_at"] = "unconstrained", end
                    return out
                out["received_name"] = name
                if expected is not None and name != expected:
                    out["failure"], out["fail_at"] = "bad_name", end
                    return out
        elif idx == 1:
            if not body:
                out["failure"], out["fail_at"] = "unconstrained", end
                return out
            if body[0] != 0:
                text = body[1:]
                out["failure"] = "invalid_key" if text == b"Handshake MAC failure" else "handshake"
                try:
                    text.decode()
                except UnicodeDecodeError:
                    out["failure"] = "unconstrained"
                out["fail_at"] = end
                return out
            if body != honest_handshake_body:
                # any change to e or to the tag fails authentication; a wrong size is not classified
                out["failure"] = "invalid_key" if len(body) == len(honest_handshake_body) else "unconstrained"
                out["fail_at"] = end
                return out
            out["ready"] = True
            out["ready_at"] = end
        else:
            assert cs is not None
            try:
                pt = cs.decrypt(b"", body)
            except InvalidTag:
                out["failure"], out["fail_at"] = "invalid_key", end
                return out
            if len(pt) < 4:
                out["failure"], out["fail_at"] = "unconstrained", end
                return out
            typ = struct.unpack(">H", pt[:2])[0]
            out["delivered"].append((typ, pt[4:], end))
            if typ == msg_id("HelloResponse") and expected is not None and not out.get("hello_checked"):
                # the authenticated name: the device's answer to the hello request carries its name again
                out["hello_checked"] = True
                hr = env.pb().HelloResponse()
                try:
                    hr.ParseFromString(pt[4:])
                except Exception:  # noqa: BLE001
                    out["failure"], out["fail_at"] = "unconstrained", end
                    return out
                if hr.name and hr.name != expected:
                    out["received_name"] = hr.name
                    out["failure"], out["fail_at"] = "bad_name", end
                    return out
        idx += 1
        pos = end
    out["consumed"] = pos
    return out


CLASS_OF = {
    "protocol": "ProtocolAPIError",
    "handshake": "HandshakeAPIError",
    "invalid_key": "InvalidEncryptionKeyAPIError",
    "bad_name": "BadNameAPIError",
}
