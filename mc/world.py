"""A closed world around one APIConnection / APIClient: loop, network, device, observations."""

from __future__ import annotations

import asyncio
import base64
import hashlib
import logging
from typing import Any, Callable

from . import env, noise_ref, wire
from .simnet import FakeSocket, Net, SocketShim
from .vloop import EVENT_READ, EVENT_WRITE, HarnessError, VLoop

FIXED_EPOCH = 1_700_000_000
# debug logging requested on the connection/client under test (what the library does must not depend on it); a check sets this
# around the configurations it repeats "with debug on" - worker processes are forked afterwards and inherit it
DEFAULT_DEBUG = [False]
# every transport of the world hands received data to the library in one recycled bytearray (set by a check around such configurations)
RECYCLE_RX = [False]
# the APIClient is constructed before the loop that later runs it exists (``cli = APIClient(...)`` at module level, then
# ``asyncio.run(main(cli))``): asyncio.get_event_loop() answers with some other loop at construction time
FOREIGN_LOOP_CLIENT = [False]
# socket.connect() raises this (not an OSError) in every world created while it is set; and: connections created without a stop callback
CONNECT_EXC: list[BaseException | None] = [None]
NO_STOP_CALLBACK = [False]
NODELAY_EXC: list[BaseException | None] = [None]  # setsockopt(TCP_NODELAY) on the connected socket raises this
_FOREIGN_LOOP: list[Any] = []  # one per process, never run, never closed
# what the wall clock reads inside aioesphomeapi.connection (the harness owns it; every new world starts at FIXED_EPOCH + 0.25)
WALL = [float(FIXED_EPOCH) + 0.25]


class _FormatEverything(logging.Handler):
    """What a real handler does with every record: build the message (formatting errors are the handler's problem, not the caller's)."""

    def emit(self, record: logging.LogRecord) -> None:
        try:
            record.getMessage()
        except Exception:  # noqa: BLE001
            pass


_LOG_HANDLER = _FormatEverything()


def real_logging(on: bool) -> None:
    """Debug logging requested on the object under test goes together with a logger that really is at DEBUG level (that is how
    applications switch it on): ``isEnabledFor(DEBUG)`` is true and every record is formatted.  Otherwise logging is disabled."""
    lg = logging.getLogger("aioesphomeapi")
    if on:
        logging.disable(logging.NOTSET)
        lg.setLevel(logging.DEBUG)
        lg.propagate = False
        if _LOG_HANDLER not in lg.handlers:
            lg.addHandler(_LOG_HANDLER)
    else:
        logging.disable(logging.CRITICAL)
        lg.setLevel(logging.NOTSET)
        if _LOG_HANDLER in lg.handlers:
            lg.removeHandler(_LOG_HANDLER)
    lg.manager._clear_cache()  # type: ignore[attr-defined]


class _TimeShim:
    """Stands in for the ``time`` module inside aioesphomeapi.connection (fixed wall clock)."""

    def __init__(self) -> None:
        import time as _t

        self._t = _t

    def time(self) -> float:
        return WALL[0]

    def __getattr__(self, name: str) -> Any:
        return getattr(self._t, name)


def seed_bytes(tag: str, n: int = 32) -> bytes:
    return hashlib.sha256(f"{env.SEED}:{tag}".encode()).digest()[:n]


def msg_id(name: str) -> int:
    return env.proto_name_to_id()[name]


def mk(_msgname: str, **fields: Any) -> Any:
    return getattr(env.pb(), _msgname)(**fields)


def pframe(msg: Any) -> bytes:
    """Plaintext frame for a protobuf message, id taken from the .proto text."""
    return wire.encode_frame(msg_id(type(msg).__name__), msg.SerializeToString())


class RaisingTransportMixin:
    pass


class World:
    """Loop + network + patches.  Subclasses add the objects under test."""

    def __init__(self) -> None:
        env.load()
        import aiohappyeyeballs.impl as hei

        import aioesphomeapi.connection as conn_mod

        self.loop = VLoop()
        self.loop.install()
        self.net = Net(self.loop)
        self._hei = hei
        self._conn_mod = conn_mod
        self._saved_socket = hei.socket
        hei.socket = SocketShim(self.net)  # type: ignore[assignment]
        self._saved_time = conn_mod.time
        conn_mod.time = _TimeShim()  # type: ignore[assignment]
        WALL[0] = float(FIXED_EPOCH) + 0.25
        self.tasks: dict[str, asyncio.Task[Any]] = {}
        self.results: dict[str, tuple[str, Any, float]] = {}
        self.started: dict[str, float] = {}
        self.log: list[Any] = []  # observation trace
        self.closed = False
        self.write_fault: Exception | None = None  # sync flavour: transport.write raises
        self.write_faults_raised = 0
        self.ret_hook: Callable[[str], None] | None = None
        self.transports: list[Any] = []
        self.recycle_rx = RECYCLE_RX[0]
        self.rx_pinned = 0
        self._patch_transport()

    # --- transport whose write can raise synchronously (uvloop-style) ----------------------
    def _patch_transport(self) -> None:
        from asyncio import selector_events

        world = self

        class T(selector_events._SelectorSocketTransport):  # type: ignore[name-defined]
            def write(self, data: Any) -> None:
                if world.write_fault is not None:
                    err, world.write_fault = world.write_fault, None
                    world.note("write_fault_raised", type(err).__name__)
                    world.write_faults_raised += 1
                    raise err
                super().write(data)

        class RecyclingProtocol:
            """Stands between the transport and the library's protocol: hands every received chunk over in one reused bytearray
            (what a transport built on recv_into() does) and overwrites that storage as soon as data_received() has returned."""

            def __init__(self, inner: Any) -> None:
                self._inner = inner
                self._rx = bytearray()

            def data_received(self, data: Any) -> None:
                self._rx[:] = data
                try:
                    self._inner.data_received(self._rx)
                finally:
                    try:
                        self._rx[:] = b"\xee" * len(data)
                    except BufferError:
                        # the library still holds an export of the caller's buffer: the transport cannot reuse it
                        world.note("rx_buffer_pinned")
                        world.rx_pinned += 1
                        self._rx = bytearray()

            def __getattr__(self, name: str) -> Any:
                return getattr(self._inner, name)

        def make(sock: Any, protocol: Any, waiter: Any = None, *, extra: Any = None, server: Any = None) -> Any:
            if world.recycle_rx:
                protocol = RecyclingProtocol(protocol)
            t = T(self.loop, sock, protocol, waiter, extra, server)
            world.transports.append(t)
            return t

        self.loop._make_socket_transport = make  # type: ignore[method-assign]

    # --- observation -----------------------------------------------------------------------
    def note(self, kind: str, *data: Any) -> None:
        self.log.append([round(self.loop.time(), 6), kind, *data])

    # --- user tasks ------------------------------------------------------------------------
    def spawn(self, name: str, coro_fn: Callable[[], Any]) -> None:
        """Run ``await coro_fn()`` as a user task, started eagerly (like a call from a running task)."""
        if name in self.tasks:
            raise HarnessError(f"task {name} already exists")
        world = self

        async def runner() -> None:
            world.started[name] = world.loop.time()
            try:
                r = await coro_fn()
            except asyncio.CancelledError as e:
                world.results[name] = ("cancelled", e, world.loop.time())
                world.note("ret", name, "cancelled")
            except BaseException as e:  # noqa: BLE001
                world.results[name] = ("exc", e, world.loop.time())
                world.note("ret", name, "exc", type(e).__name__)
            else:
                world.results[name] = ("ok", r, world.loop.time())
                world.note("ret", name, "ok")
            if world.ret_hook is not None:
                world.ret_hook(name)

        self.note("call", name)
        self.tasks[name] = asyncio.Task(runner(), loop=self.loop, eager_start=True, name=name)

    def cancel(self, name: str) -> None:
        self.note("cancel", name)
        self.tasks[name].cancel()

    def pending(self, name: str) -> bool:
        return name in self.tasks and name not in self.results

    def outcome(self, name: str) -> str | None:
        r = self.results.get(name)
        if r is None:
            return None
        if r[0] == "exc":
            return "exc:" + type(r[1]).__name__
        return r[0]

    # --- network events --------------------------------------------------------------------
    @property
    def sock(self) -> FakeSocket | None:
        live = [s for s in self.net.sockets if not s.closed and s.connect_result == 0]
        if live:
            return live[-1]
        return self.net.sockets[-1] if self.net.sockets else None

    def io_connect(self, s: FakeSocket, result: int = 0) -> None:
        s.connect_result = result
        self.note("io_connect", s.fd, result)

    def io_chunk(self, s: FakeSocket, data: bytes) -> None:
        s.inbox.append(data)
        self.note("io_chunk", s.fd, len(data))

    def io_eof(self, s: FakeSocket) -> None:
        s.inbox.append(b"")
        self.note("io_eof", s.fd)

    def io_rst(self, s: FakeSocket) -> None:
        s.inbox.append(ConnectionResetError(104, "Connection reset by peer"))
        self.note("io_rst", s.fd)

    # --- stepping --------------------------------------------------------------------------
    def step(self) -> None:
        self.loop.step()

    def drain(self) -> None:
        self.loop.drain()

    def run_timers(self, horizon: float, limit: int = 1000) -> None:
        """Advance virtual time timer by timer up to horizon (absolute), draining after each."""
        n = 0
        while True:
            nt = self.loop.next_timer_at()
            if nt is None or nt > horizon:
                break
            self.loop.advance_to(max(nt, self.loop.time()))
            self.drain()
            n += 1
            if n > limit:
                raise HarnessError("timers never end")
        self.loop.advance_to(max(horizon, self.loop.time()))

    def advance_next_timer(self) -> bool:
        nt = self.loop.next_timer_at()
        if nt is None:
            return False
        self.loop.advance_to(max(nt, self.loop.time()))
        self.note("time", round(self.loop.time(), 6))
        return True

    def close(self) -> None:
        if self.closed:
            return
        self.closed = True
        try:
            self.loop.teardown()
        finally:
            self._hei.socket = self._saved_socket
            self._conn_mod.time = self._saved_time
            if getattr(self, "_real_logging", False):
                real_logging(False)


# ------------------------------------------------------------------------------------------
# A world with one APIConnection (or one APIClient) and a scripted device
# ------------------------------------------------------------------------------------------
class ConnWorld(World):
    def __init__(
        self,
        *,
        noise: bool = False,
        psk: bytes | None = None,
        device_psk: bytes | None = None,
        expected_name: str | None = None,
        password: str | None = None,
        keepalive: float | None = 1e6,
        addresses: tuple[str, ...] = ("10.0.0.1",),
        client: bool = False,
        device_name: str | None = "dev",
        login: bool = True,
        debug: bool | None = None,
        noise_psk_text: str | None = None,
    ) -> None:
        super().__init__()
        if debug is None:
            debug = DEFAULT_DEBUG[0]
        self._real_logging = bool(debug)
        real_logging(self._real_logging)
        from aioesphomeapi.connection import APIConnection, ConnectionParams
        from aioesphomeapi.zeroconf import ZeroconfManager

        self.noise = noise
        self.login = login
        self.device_name = device_name
        self.stops: list[tuple[float, bool, str]] = []
        self.stop_hooks: list[Callable[[bool], None]] = []
        self.psk = psk if psk is not None else seed_bytes("psk")
        self.ndev: noise_ref.NoiseDevice | None = None
        if noise:
            self.ndev = noise_ref.NoiseDevice(
                device_psk if device_psk is not None else self.psk, seed_bytes("eph"), name=device_name
            )
        self.client: Any = None
        self.conn: Any = None
        noise_psk = base64.b64encode(self.psk).decode() if noise else None
        if noise_psk_text is not None:
            noise_psk = noise_psk_text  # the key exactly as the application typed it (possibly not a key at all)
        if client:
            from aioesphomeapi.client import APIClient

            kw: dict[str, Any] = {} if keepalive is None else {"keepalive": keepalive}  # None = the library's default
            other = None
            if FOREIGN_LOOP_CLIENT[0]:
                from asyncio import events as _events

                if not _FOREIGN_LOOP:
                    _FOREIGN_LOOP.append(asyncio.new_event_loop())
                other = _FOREIGN_LOOP[0]
                _events._set_running_loop(None)
                asyncio.set_event_loop(other)
            try:
                self.client = self._new_client(APIClient, addresses, password, noise_psk, expected_name, kw)
            finally:
                if other is not None:
                    asyncio.set_event_loop(None)
                    _events._set_running_loop(self.loop)
            if debug:
                self.client.set_debug(True)
        else:
            self.params = ConnectionParams(
                addresses=list(addresses),
                port=6053,
                password=password,
                client_info="verif",
                keepalive=keepalive,
                zeroconf_manager=ZeroconfManager(),
                noise_psk=noise_psk,
                expected_name=expected_name,
            )
            self.conn = APIConnection(self.params, None if NO_STOP_CALLBACK[0] else self._on_stop, debug, None)
        self.net.connect_exc = CONNECT_EXC[0]
        self.net.nodelay_exc = NODELAY_EXC[0]
        self._fed = 0  # bytes of client output already given to the noise device

    @staticmethod
    def _new_client(APIClient: Any, addresses: Any, password: Any, noise_psk: Any, expected_name: Any, kw: dict[str, Any]) -> Any:
        return APIClient(addresses[0], 6053, password, noise_psk=noise_psk, expected_name=expected_name, addresses=list(addresses), **kw)

    stop_raises = False  # the application's stop callback fails (after it has been recorded)

    def _on_stop(self, expected: bool) -> None:
        st = self.conn.connection_state.name if self.conn is not None else "?"
        self.stops.append((self.loop.time(), bool(expected), st))
        self.note("on_stop", bool(expected))
        for h in self.stop_hooks:
            h(bool(expected))
        if self.stop_raises and type(self)._on_stop is ConnWorld._on_stop:
            raise RuntimeError("application stop callback failed")

    # --- what the client wrote ---------------------------------------------------------------
    def sent_frames(self, s: FakeSocket | None = None) -> list[tuple[int, bytes]]:
        s = s or self.sock
        if s is None:
            return []
        data = s.sent_bytes()
        if not self.noise:
            return [(t, p) for _, t, p in wire.frame_ends(data)]
        assert self.ndev is not None
        self._feed_noise(s)
        return list(self.ndev.received)

    def _feed_noise(self, s: FakeSocket) -> None:
        assert self.ndev is not None
        data = s.sent_bytes()
        if len(data) > self._fed:
            self.ndev.feed(data[self._fed :])
            self._fed = len(data)

    def sent_names(self, s: FakeSocket | None = None) -> list[str]:
        ids = env.proto_ids()
        return [ids.get(t, f"?{t}") for t, _ in self.sent_frames(s)]

    # --- device side frames ------------------------------------------------------------------
    def dframe(self, msg: Any) -> bytes:
        """Frame of a protobuf message as this world's device would send it."""
        if not self.noise:
            return pframe(msg)
        assert self.ndev is not None
        return self.ndev.data_frame(msg_id(type(msg).__name__), msg.SerializeToString())

    def hello_resp(self, major: int = 1, minor: int = 10, name: str | None = None) -> Any:
        return mk(
            "HelloResponse",
            api_version_major=major,
            api_version_minor=minor,
            server_info="sim",
            name=(self.device_name or "") if name is None else name,
        )

    def connect_resp(self, invalid: bool = False) -> Any:
        return mk("ConnectResponse", invalid_password=invalid)

    def noise_handshake_bytes(self) -> bytes:
        """Server hello + handshake frames (client hello must already have been written)."""
        assert self.ndev is not None and self.sock is not None
        self._feed_noise(self.sock)
        return self.ndev.hello_frame() + self.ndev.handshake_frame()

    # --- canned prefixes ("seeds") -------------------------------------------------------------
    def target(self) -> Any:
        return self.client if self.client is not None else self.conn

    def do_start(self) -> None:
        t = self.target()
        self.spawn("start", lambda: t.start_connection())
        self.drain()

    def do_tcp_ok(self) -> None:
        assert self.sock is not None
        self.io_connect(self.sock, 0)
        self.step()
        self.drain()

    def do_finish_call(self) -> None:
        t = self.target()
        login = self.login
        self.spawn("finish", lambda: t.finish_connection(login=login))
        self.drain()

    def do_handshake(self) -> None:
        if self.noise:
            assert self.sock is not None
            self.io_chunk(self.sock, self.noise_handshake_bytes())
            self.step()
            self.drain()

    def do_hello(self) -> None:
        assert self.sock is not None
        data = self.dframe(self.hello_resp())
        if self.login:
            data += self.dframe(self.connect_resp())
        self.io_chunk(self.sock, data)
        self.step()
        self.drain()

    def connect_fully_split(self) -> None:
        """Like connect_fully, but every device frame of the connect phase arrives in a chunk of its own."""
        self.do_start()
        self.do_tcp_ok()
        if self.outcome("start") != "ok":
            raise HarnessError(f"seed: start did not succeed: {self.results.get('start')}")
        self.do_finish_call()
        assert self.sock is not None
        frames: list[bytes] = []
        if self.noise:
            assert self.ndev is not None
            self._feed_noise(self.sock)
            frames += [self.ndev.hello_frame(), self.ndev.handshake_frame()]
        for f in frames:
            self.io_chunk(self.sock, f)
            self.step()
            self.drain()
        frames = [self.dframe(self.hello_resp())] + ([self.dframe(self.connect_resp())] if self.login else [])
        for f in frames:
            self.io_chunk(self.sock, f)
            self.step()
            self.drain()
        if self.outcome("finish") != "ok":
            raise HarnessError(f"seed: finish did not succeed: {self.results.get('finish')}")

    def connect_fully(self) -> None:
        self.do_start()
        self.do_tcp_ok()
        if self.outcome("start") != "ok":
            raise HarnessError(f"seed: start did not succeed: {self.results.get('start')}")
        self.do_finish_call()
        self.do_handshake()
        self.do_hello()
        if self.outcome("finish") != "ok":
            raise HarnessError(f"seed: finish did not succeed: {self.results.get('finish')}")
