"""Locate and import the code under test (always the current working tree of VERIF_REPO)."""

from __future__ import annotations

import logging
import os
import sys
from typing import Any

REPO = os.environ.get("VERIF_REPO", "/repo")
VERIF = os.path.dirname(os.path.dirname(os.path.abspath(__file__)))
SEED = int(os.environ.get("VERIF_SEED", "0") or 0)

_loaded = False


def load() -> Any:
    """Import aioesphomeapi from REPO and silence its logging."""
    global _loaded
    if _loaded:
        return sys.modules["aioesphomeapi"]
    if REPO not in sys.path[:1]:
        sys.path.insert(0, REPO)
    import aioesphomeapi  # noqa: F401

    got = os.path.realpath(os.path.dirname(os.path.dirname(aioesphomeapi.__file__)))
    if got != os.path.realpath(REPO):
        raise RuntimeError(f"aioesphomeapi imported from {got}, expected {REPO}")
    if not _loaded:
        logging.disable(logging.CRITICAL)
        _loaded = True
    return aioesphomeapi


_proto_cache: dict[str, Any] = {}


def proto() -> Any:
    """Parsed api.proto text (independent of the compiled descriptors)."""
    from . import protoparse

    if "api" not in _proto_cache:
        _proto_cache["api"] = protoparse.parse_file(os.path.join(REPO, "aioesphomeapi", "api.proto"))
    return _proto_cache["api"]


def proto_ids() -> dict[int, str]:
    from . import protoparse

    if "ids" not in _proto_cache:
        _proto_cache["ids"] = protoparse.id_table(proto())
    return _proto_cache["ids"]


def proto_name_to_id() -> dict[str, int]:
    if "n2i" not in _proto_cache:
        _proto_cache["n2i"] = {v: k for k, v in proto_ids().items()}
    return _proto_cache["n2i"]


def pb() -> Any:
    load()
    from aioesphomeapi import api_pb2

    return api_pb2
