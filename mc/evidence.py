"""Check results, evidence files, replay artefacts, known findings."""

from __future__ import annotations

from dataclasses import dataclass, field
import hashlib
import json
import os
import subprocess
from typing import Any

from . import env

VERIF = env.VERIF
EVIDENCE_DIR = os.path.join(VERIF, "evidence")
REPLAY_DIR = os.path.join(VERIF, "replays")
KNOWN_FILE = os.path.join(VERIF, "known_findings.json")


def jsonable(o: Any) -> Any:
    if isinstance(o, (str, int, bool)) or o is None:
        return o
    if isinstance(o, float):
        if o != o or o in (float("inf"), float("-inf")):
            return repr(o)
        return o
    if isinstance(o, bytes):
        return {"hex": o.hex()} if len(o) <= 64 else {"hex": o[:64].hex() + "...", "len": len(o)}
    if isinstance(o, dict):
        return {str(k): jsonable(v) for k, v in o.items()}
    if isinstance(o, (list, tuple, set, frozenset)):
        return [jsonable(x) for x in o]
    return repr(o)


@dataclass
class Violation:
    key: str  # stable identifier of the failing input / history (used for known findings)
    clause: str  # which clause of the property is violated
    detail: Any = None  # replay payload: harness, params, choices, observations


@dataclass
class Result:
    property_id: str
    level: str
    coverage: dict[str, Any] = field(default_factory=dict)
    assumptions: list[str] = field(default_factory=list)
    violations: list[Violation] = field(default_factory=list)
    notes: list[str] = field(default_factory=list)

    def add(self, key: str, clause: str, detail: Any = None) -> None:
        # one report per key
        if any(v.key == key for v in self.violations):
            return
        if len(self.violations) >= 8:  # enough to diagnose; the first ones are the simplest
            self.suppressed = getattr(self, "suppressed", 0) + 1
            return
        self.violations.append(Violation(key, clause, detail))


def load_known() -> dict[str, Any]:
    if not os.path.exists(KNOWN_FILE):
        return {"findings": [], "fixed": []}
    with open(KNOWN_FILE, encoding="utf-8") as fh:
        return json.load(fh)


def repo_head() -> str:
    try:
        out = subprocess.run(
            ["git", "-C", env.REPO, "rev-parse", "--short", "HEAD"], capture_output=True, text=True, check=False
        ).stdout.strip()
        dirty = subprocess.run(
            ["git", "-C", env.REPO, "status", "--porcelain", "--untracked-files=no"],
            capture_output=True,
            text=True,
            check=False,
        ).stdout.strip()
        return out + ("+dirty" if dirty else "")
    except OSError:
        return "unknown"


def write_replay(pid: str, tier: str, seed: int, v: Violation) -> str:
    os.makedirs(REPLAY_DIR, exist_ok=True)
    body = {
        "property": pid,
        "tier": tier,
        "seed": seed,
        "key": v.key,
        "violated": v.clause,
        "detail": jsonable(v.detail),
        "repo_head": repo_head(),
    }
    h = hashlib.sha256(json.dumps([pid, v.key], sort_keys=True).encode()).hexdigest()[:10]
    path = os.path.join(REPLAY_DIR, f"{pid}-{h}.json")
    with open(path, "w", encoding="utf-8") as fh:
        json.dump(body, fh, indent=1, sort_keys=True)
    return path


def finalize(res: Result, tier: str, seed: int, wall_s: float) -> int:
    """Write evidence, print KNOWN-FINDING / VIOLATION lines, return the exit code."""
    known = load_known()
    open_known = {(f["property"], f["key"]): f for f in known.get("findings", [])}
    new: list[tuple[Violation, str]] = []
    known_hit: list[Violation] = []
    for v in res.violations:
        if (res.property_id, v.key) in open_known:
            known_hit.append(v)
        else:
            new.append((v, write_replay(res.property_id, tier, seed, v)))
    cov = dict(res.coverage)
    cov.setdefault("samples", [])
    cov["samples"] = jsonable(cov["samples"])[:8]
    cov["known_findings_reproduced"] = [v.key for v in known_hit]
    # a listed finding that no longer reproduces is reported (not an error: it may have been fixed)
    stale = [
        k for (p, k) in open_known if p == res.property_id and k not in {v.key for v in known_hit}
    ]
    if stale:
        cov["known_findings_not_reproduced"] = stale
    ev = {
        "property_id": res.property_id,
        "tier": tier,
        "seed": seed,
        "level": res.level,
        "coverage": jsonable(cov),
        "assumptions": res.assumptions,
        "wall_s": round(wall_s, 3),
        "violations": len(new),
        "repo_head": repo_head(),
        "notes": res.notes,
    }
    ev_dir = EVIDENCE_DIR
    if os.environ.get("VERIF_NO_EVIDENCE"):  # mutant runs must not overwrite the real evidence
        ev_dir = os.path.join(REPLAY_DIR, "mutant-evidence")
    os.makedirs(ev_dir, exist_ok=True)
    path = os.path.join(ev_dir, f"{res.property_id}.json")
    tmp = path + ".tmp"
    with open(tmp, "w", encoding="utf-8") as fh:
        json.dump(ev, fh, indent=1, sort_keys=True)
        fh.write("\n")
    os.replace(tmp, path)
    for v in known_hit:
        f = open_known[(res.property_id, v.key)]
        print(f"KNOWN-FINDING: property={res.property_id} {f.get('what', v.key)} [{v.key}]")
    for v, rp in new:
        print(f"VIOLATION property={res.property_id} replay={rp}")
        print(f"  key={v.key}")
        print(f"  clause={v.clause}")
    summary = {k: v for k, v in cov.items() if isinstance(v, (int, float, bool, str)) and k != "rule"}
    print(f"[{res.property_id}] tier={tier} seed={seed} wall={wall_s:.1f}s {json.dumps(summary, sort_keys=True)}")
    return 1 if new else 0
