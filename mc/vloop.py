"""VLoop: the real asyncio selector event loop over a fake selector and a virtual clock.

Everything asyncio does by itself (ordering of ready callbacks, I/O callbacks and timers in
``_run_once``; ``_SelectorSocketTransport``; ``sock_connect``; ``create_connection``;
``asyncio.timeout``; eager tasks) is the stock CPython code.  Only the selector, the clock,
``getaddrinfo`` and the self-pipe are replaced, and the explorer drives the loop one
``_run_once()`` at a time.
"""

from __future__ import annotations

import asyncio
from asyncio import events, selector_events
import gc
import selectors
import threading
from typing import Any, Callable

EVENT_READ = selectors.EVENT_READ
EVENT_WRITE = selectors.EVENT_WRITE


class HarnessError(Exception):
    """The harness itself misbehaved (never a verdict about the code under test)."""


# --------------------------------------------------------------------------------------
# per-callback hook: a monitor can look at the world after every single callback
# --------------------------------------------------------------------------------------
_ORIG_HANDLE_RUN = events.Handle._run


def _handle_run(self: events.Handle) -> None:
    loop = self._loop
    pre = getattr(loop, "_before_cb", None)
    if pre is not None:
        pre(self)
        if self._cancelled:  # whatever the hook injected cancelled this very callback
            return
    _ORIG_HANDLE_RUN(self)
    hook = getattr(loop, "_after_cb", None)
    if hook is not None:
        hook(self)


def install_handle_hook() -> None:
    if events.Handle._run is not _handle_run:
        events.Handle._run = _handle_run  # type: ignore[method-assign]


class FakeSelector:
    """Selector whose ``select`` returns exactly what the explorer staged."""

    def __init__(self) -> None:
        self._map: dict[int, selectors.SelectorKey] = {}
        self.staged: list[tuple[int, int]] = []  # extra (fd, mask) for the next select() only
        self.poll: Any = None  # callable -> ordered [(fd, mask)] that are ready right now (level-triggered)
        self.selects = 0

    # --- selector API used by asyncio -------------------------------------------------
    def _fd(self, fileobj: Any) -> int:
        return fileobj if isinstance(fileobj, int) else fileobj.fileno()

    def register(self, fileobj: Any, events_: int, data: Any = None) -> selectors.SelectorKey:
        fd = self._fd(fileobj)
        if fd in self._map:
            raise KeyError(f"{fd} already registered")
        key = selectors.SelectorKey(fileobj, fd, events_, data)
        self._map[fd] = key
        return key

    def unregister(self, fileobj: Any) -> selectors.SelectorKey:
        return self._map.pop(self._fd(fileobj))

    def modify(self, fileobj: Any, events_: int, data: Any = None) -> selectors.SelectorKey:
        fd = self._fd(fileobj)
        if fd not in self._map:
            raise KeyError(fd)
        key = selectors.SelectorKey(fileobj, fd, events_, data)
        self._map[fd] = key
        return key

    def get_key(self, fileobj: Any) -> selectors.SelectorKey:
        return self._map[self._fd(fileobj)]

    def get_map(self) -> dict[int, selectors.SelectorKey]:
        return self._map

    def close(self) -> None:
        self._map.clear()

    def select(self, timeout: float | None = None) -> list[tuple[selectors.SelectorKey, int]]:
        # never blocks, never advances time: the explorer owns both
        self.selects += 1
        staged, self.staged = self.staged, []
        if self.poll is not None:
            staged = list(self.poll()) + staged
        out = []
        for fd, mask in staged:
            key = self._map.get(fd)
            if key is None:
                continue
            m = mask & key.events
            if m:
                out.append((key, m))
        return out

    # --- explorer side ----------------------------------------------------------------
    def interest(self, fd: int) -> int:
        key = self._map.get(fd)
        return key.events if key is not None else 0


class VLoop(selector_events.BaseSelectorEventLoop):
    """Real selector loop, fake selector, virtual clock; driven by ``step()``."""

    def __init__(self) -> None:
        self._vtime = 1000.0
        self.fsel = FakeSelector()
        super().__init__(self.fsel)  # type: ignore[arg-type]
        self.errors: list[dict[str, Any]] = []  # what the loop's exception handler saw
        self.set_exception_handler(self._on_exception)
        self._after_cb: Callable[[events.Handle], None] | None = None
        self._before_cb: Callable[[events.Handle], None] | None = None
        self.getaddrinfo_impl: Callable[..., Any] | None = None
        self.error_hook: Callable[[dict[str, Any]], None] | None = None
        self.iterations = 0
        self.callbacks = 0
        self._installed = False
        install_handle_hook()

    # --- pieces of the real loop that must not touch the OS ---------------------------
    def _make_self_pipe(self) -> None:  # no signals, no threads
        self._ssock = None
        self._csock = None
        self._internal_fds = 0

    def _close_self_pipe(self) -> None:
        pass

    def _write_to_self(self) -> None:
        pass

    def time(self) -> float:
        return self._vtime

    def run_in_executor(self, executor: Any, func: Any, *args: Any) -> Any:
        raise HarnessError(f"run_in_executor({func}) is not allowed under VLoop")

    async def getaddrinfo(self, host: Any, port: Any, *, family: int = 0, type: int = 0,
                          proto: int = 0, flags: int = 0) -> Any:
        if self.getaddrinfo_impl is None:
            raise HarnessError(f"unexpected getaddrinfo({host!r})")
        return await self.getaddrinfo_impl(host, port, family=family, type=type, proto=proto,
                                           flags=flags)

    def _on_exception(self, loop: Any, context: dict[str, Any]) -> None:
        exc = context.get("exception")
        entry = {
            "t": self._vtime,
            "message": context.get("message"),
            "exc_type": type(exc).__name__ if exc is not None else None,
            "exc": exc,
            "is_timer": isinstance(context.get("handle"), events.TimerHandle),
        }
        self.errors.append(entry)
        if self.error_hook is not None:
            self.error_hook(entry)

    # --- driving ----------------------------------------------------------------------
    def install(self) -> None:
        if self._installed:
            return
        self._check_closed()
        self._thread_id = threading.get_ident()
        events._set_running_loop(self)
        self._installed = True

    def uninstall(self) -> None:
        if not self._installed:
            return
        self._thread_id = None
        events._set_running_loop(None)
        self._installed = False

    def step(self, ready: list[tuple[int, int]] | None = None) -> None:
        """One event-loop iteration; ``ready`` = ordered (fd, mask) list the selector reports."""
        if ready:
            self.fsel.staged = list(ready)
        self.iterations += 1
        self._run_once()

    def due_timer(self) -> bool:
        end = self._vtime + self._clock_resolution
        for h in self._scheduled:
            if not h._cancelled and h._when < end:
                return True
        return False

    def io_ready(self) -> bool:
        if self.fsel.poll is None:
            return False
        for fd, mask in self.fsel.poll():
            if self.fsel.interest(fd) & mask:
                return True
        return False

    def busy(self) -> bool:
        """Something would run in the next iteration without any new environment event."""
        if any(not h._cancelled for h in self._ready):
            return True
        return self.due_timer() or self.io_ready()

    def drain(self, limit: int = 200) -> int:
        n = 0
        while self.busy():
            self.step()
            n += 1
            if n > limit:
                raise HarnessError("loop does not become quiescent (livelock?)")
        return n

    def live_timers(self) -> list[events.TimerHandle]:
        return sorted((h for h in self._scheduled if not h._cancelled), key=lambda h: h._when)

    def next_timer_at(self) -> float | None:
        lt = self.live_timers()
        return lt[0]._when if lt else None

    def advance_to(self, when: float) -> None:
        if when < self._vtime:
            raise HarnessError("time cannot go backwards")
        self._vtime = when

    def pending_tasks(self) -> list[asyncio.Task[Any]]:
        return [t for t in asyncio.all_tasks(self) if not t.done()]

    def teardown(self) -> None:
        """Cancel whatever is left and drain, so no coroutine is finalised on a dead loop."""
        self._after_cb = None
        self._before_cb = None
        try:
            for _ in range(20):
                tasks = self.pending_tasks()
                if not tasks and not self.busy():
                    break
                for t in tasks:
                    t.cancel()
                # let cancellations and their follow-ups run; also run timers away
                for _ in range(50):
                    if not self.busy():
                        break
                    self.step()
                for h in list(self._scheduled):
                    h.cancel()
        finally:
            self.uninstall()
            self._ready.clear()
            self._scheduled.clear()
            self.fsel.close()
            self._closed = True  # do not call close(): nothing OS-level to release


def timer_name(h: events.Handle) -> str:
    cb = h._callback
    while hasattr(cb, "func"):
        cb = cb.func
    return getattr(cb, "__qualname__", None) or getattr(cb, "__name__", None) or type(cb).__name__
