"""Independent plaintext wire codec, written from the comment block in api.proto.

  * a zero byte
  * VarInt: size of the message object (type not included)
  * VarInt: type of message
  * the message object

Shares no code with aioesphomeapi._frame_helper.
"""

from __future__ import annotations


class WireError(Exception):
    pass


def varint(n: int) -> bytes:
    if n < 0:
        raise ValueError("negative varint")
    out = bytearray()
    while True:
        b = n & 0x7F
        n >>= 7
        if n:
            out.append(b | 0x80)
        else:
            out.append(b)
            return bytes(out)


def varint_nonminimal(n: int, extra: int) -> bytes:
    """Encoding of n padded with ``extra`` redundant continuation groups."""
    base = bytearray(varint(n))
    if extra <= 0:
        return bytes(base)
    base[-1] |= 0x80
    for _ in range(extra - 1):
        base.append(0x80)
    base.append(0x00)
    return bytes(base)


def read_varint(buf: bytes, pos: int) -> tuple[int, int] | None:
    """Return (value, new_pos) or None if the buffer ends inside the varint."""
    result = 0
    shift = 0
    while pos < len(buf):
        b = buf[pos]
        pos += 1
        result |= (b & 0x7F) << shift
        if not b & 0x80:
            return result, pos
        shift += 7
    return None


def encode_frame(msg_type: int, payload: bytes) -> bytes:
    return b"\x00" + varint(len(payload)) + varint(msg_type) + payload


def encode_frames(frames: list[tuple[int, bytes]]) -> bytes:
    return b"".join(encode_frame(t, p) for t, p in frames)


def frame_ends(stream: bytes) -> list[tuple[int, int, bytes]]:
    """Framer: [(end_offset, type, payload)] for every complete frame; stops at an incomplete tail.

    Raises WireError on a non-zero preamble.
    """
    out = []
    pos = 0
    n = len(stream)
    while pos < n:
        if stream[pos] != 0:
            raise WireError(f"bad preamble {stream[pos]:#x} at {pos}")
        r = read_varint(stream, pos + 1)
        if r is None:
            break
        length, p = r
        r = read_varint(stream, p)
        if r is None:
            break
        typ, p = r
        if p + length > n:
            break
        out.append((p + length, typ, stream[p : p + length]))
        pos = p + length
    return out


def decode_strict(stream: bytes) -> list[tuple[int, bytes]]:
    """Decode a complete write: every byte must belong to a frame, varints must be minimal."""
    out = []
    pos = 0
    n = len(stream)
    while pos < n:
        if stream[pos] != 0:
            raise WireError(f"bad preamble {stream[pos]:#x} at {pos}")
        r = read_varint(stream, pos + 1)
        if r is None:
            raise WireError("truncated length")
        length, p = r
        if stream[pos + 1 : p] != varint(length):
            raise WireError(f"non-minimal length varint {stream[pos + 1:p].hex()}")
        r = read_varint(stream, p)
        if r is None:
            raise WireError("truncated type")
        typ, p2 = r
        if stream[p:p2] != varint(typ):
            raise WireError(f"non-minimal type varint {stream[p:p2].hex()}")
        if p2 + length > n:
            raise WireError("truncated payload")
        out.append((typ, stream[p2 : p2 + length]))
        pos = p2 + length
    return out
