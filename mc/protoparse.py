"""A small parser for the subset of protobuf text used by api.proto / api_options.proto.

protoc is not available offline; this is the "text" side of "the compiled descriptors agree
with the .proto text".  Handles: syntax, import, service/rpc (with option blocks), flat
messages with options and fields (label, type, name, number, field options), enums,
extend blocks.  No nesting, no oneof, no map (api.proto has none; the parser fails loudly
if it meets one).
"""

from __future__ import annotations

from dataclasses import dataclass, field
import re
from typing import Any

_TOKEN = re.compile(
    r"""
    \s+ | //[^\n]* | /\*.*?\*/ |
    (?P<str>"(?:[^"\\]|\\.)*") |
    (?P<id>[A-Za-z_][A-Za-z0-9_.]*) |
    (?P<num>-?\d+(?:\.\d+)?) |
    (?P<sym>[{}()\[\];=,<>])
    """,
    re.X | re.S,
)


def tokenize(text: str) -> list[str]:
    pos = 0
    out = []
    while pos < len(text):
        m = _TOKEN.match(text, pos)
        if not m:
            raise SyntaxError(f"cannot tokenize at {pos}: {text[pos:pos + 30]!r}")
        pos = m.end()
        if m.lastgroup:
            out.append(m.group(m.lastgroup))
    return out


@dataclass
class PField:
    name: str
    number: int
    type: str
    label: str  # "", "repeated", "optional", "required"
    options: dict[str, str] = field(default_factory=dict)


@dataclass
class PMessage:
    name: str
    options: dict[str, str] = field(default_factory=dict)
    fields: list[PField] = field(default_factory=list)


@dataclass
class PEnum:
    name: str
    values: list[tuple[str, int]] = field(default_factory=list)


@dataclass
class PRpc:
    name: str
    request: str
    response: str
    options: dict[str, str] = field(default_factory=dict)


@dataclass
class PFile:
    syntax: str = ""
    imports: list[str] = field(default_factory=list)
    messages: dict[str, PMessage] = field(default_factory=dict)
    enums: dict[str, PEnum] = field(default_factory=dict)
    rpcs: list[PRpc] = field(default_factory=list)
    extends: dict[str, list[PField]] = field(default_factory=dict)
    message_order: list[str] = field(default_factory=list)


class _P:
    def __init__(self, toks: list[str]) -> None:
        self.t = toks
        self.i = 0

    def peek(self) -> str | None:
        return self.t[self.i] if self.i < len(self.t) else None

    def next(self) -> str:
        tok = self.t[self.i]
        self.i += 1
        return tok

    def expect(self, s: str) -> None:
        tok = self.next()
        if tok != s:
            raise SyntaxError(f"expected {s!r}, got {tok!r} at token {self.i}")

    def option_stmt(self) -> tuple[str, str]:
        # after the keyword "option": (name) = value ;   or   name = value ;
        if self.peek() == "(":
            self.next()
            name = self.next()
            self.expect(")")
        else:
            name = self.next()
        self.expect("=")
        val = self.next()
        self.expect(";")
        return name, val

    def field_options(self) -> dict[str, str]:
        opts: dict[str, str] = {}
        if self.peek() != "[":
            return opts
        self.next()
        while True:
            if self.peek() == "(":
                self.next()
                name = self.next()
                self.expect(")")
            else:
                name = self.next()
            self.expect("=")
            opts[name] = self.next()
            if self.peek() == ",":
                self.next()
                continue
            self.expect("]")
            return opts

    def fields_block(self, msg: PMessage | None, fields: list[PField]) -> None:
        self.expect("{")
        while self.peek() != "}":
            tok = self.next()
            if tok == "option":
                name, val = self.option_stmt()
                if msg is None:
                    raise SyntaxError("option outside message")
                msg.options[name] = val
                continue
            if tok in ("oneof", "map", "message", "enum", "reserved", "extensions"):
                raise SyntaxError(f"unsupported construct {tok!r}")
            label = ""
            if tok in ("repeated", "optional", "required"):
                label = tok
                tok = self.next()
            ftype = tok
            fname = self.next()
            self.expect("=")
            num = int(self.next())
            opts = self.field_options()
            self.expect(";")
            fields.append(PField(fname, num, ftype, label, opts))
        self.expect("}")

    def parse(self) -> PFile:
        f = PFile()
        while self.peek() is not None:
            tok = self.next()
            if tok == "syntax":
                self.expect("=")
                f.syntax = self.next().strip('"')
                self.expect(";")
            elif tok == "import":
                f.imports.append(self.next().strip('"'))
                self.expect(";")
            elif tok == "message":
                m = PMessage(self.next())
                self.fields_block(m, m.fields)
                if m.name in f.messages:
                    raise SyntaxError(f"duplicate message {m.name}")
                f.messages[m.name] = m
                f.message_order.append(m.name)
            elif tok == "enum":
                e = PEnum(self.next())
                self.expect("{")
                while self.peek() != "}":
                    n = self.next()
                    if n == "option":
                        self.option_stmt()
                        continue
                    self.expect("=")
                    v = int(self.next())
                    self.field_options()
                    self.expect(";")
                    e.values.append((n, v))
                self.expect("}")
                if e.name in f.enums:
                    raise SyntaxError(f"duplicate enum {e.name}")
                f.enums[e.name] = e
            elif tok == "extend":
                target = self.next()
                fl: list[PField] = []
                self.fields_block(None, fl)
                f.extends.setdefault(target, []).extend(fl)
            elif tok == "service":
                self.next()
                self.expect("{")
                while self.peek() != "}":
                    self.expect("rpc")
                    name = self.next()
                    self.expect("(")
                    req = self.next()
                    self.expect(")")
                    self.expect("returns")
                    self.expect("(")
                    resp = self.next()
                    self.expect(")")
                    rpc = PRpc(name, req, resp)
                    if self.peek() == "{":
                        self.next()
                        while self.peek() != "}":
                            self.expect("option")
                            k, v = self.option_stmt()
                            rpc.options[k] = v
                        self.expect("}")
                    else:
                        self.expect(";")
                    f.rpcs.append(rpc)
                self.expect("}")
            elif tok == ";":
                continue
            else:
                raise SyntaxError(f"unexpected top-level token {tok!r}")
        return f


def parse_text(text: str) -> PFile:
    return _P(tokenize(text)).parse()


def parse_file(path: str) -> PFile:
    with open(path, encoding="utf-8") as fh:
        return parse_text(fh.read())


def id_table(pf: PFile) -> dict[int, str]:
    """id -> message name for every message that declares option (id)."""
    out: dict[int, str] = {}
    dups: list[Any] = []
    for name in pf.message_order:
        m = pf.messages[name]
        if "id" in m.options:
            i = int(m.options["id"])
            if i in out:
                dups.append((i, out[i], name))
            out[i] = name
    if dups:
        raise ValueError(f"duplicate ids in proto text: {dups}")
    return out


def source_of(pf: PFile, name: str) -> str:
    return pf.messages[name].options.get("source", "SOURCE_BOTH")
