"""Generic, over-fine canonical form of the objects under test, the loop and the user tasks.

Used (a) to count distinct states and (b) to prune re-visited states.  It is deliberately
over-fine: every slot of the library objects is included; anything that cannot be
canonicalised raises CannotCanon and the harness then runs without pruning.
"""

from __future__ import annotations

import asyncio
from asyncio import events
import enum
from functools import partial
import types
from typing import Any

from .vloop import VLoop


class CannotCanon(Exception):
    pass


def cb_name(cb: Any) -> Any:
    args: tuple[Any, ...] = ()
    while isinstance(cb, partial):
        args = tuple(cb.args) + args
        cb = cb.func
    name = getattr(cb, "__qualname__", None) or getattr(cb, "__name__", None) or type(cb).__name__
    own = getattr(cb, "__self__", None)
    if isinstance(own, asyncio.Task):
        name = f"{name}<{own.get_name()}>"
    elif isinstance(own, asyncio.Future):
        name = f"{name}<fut>"
    simple = tuple(a for a in args if isinstance(a, (int, str, bool, float, bytes)))
    return (name, simple) if simple else name


def fut_state(f: Any) -> Any:
    if f is None:
        return None
    if not f.done():
        return "P"
    if f.cancelled():
        return "C"
    exc = f.exception()
    if exc is not None:
        return ("E", type(exc).__name__)
    return "R"


def task_point(t: asyncio.Task[Any]) -> Any:
    if t.done():
        return ("done", fut_state(t))
    pts = []
    c: Any = t.get_coro()
    seen = 0
    while c is not None and seen < 40:
        seen += 1
        fr = getattr(c, "cr_frame", None) or getattr(c, "gi_frame", None)
        if fr is not None:
            pts.append((fr.f_code.co_name, fr.f_lasti))
        nxt = getattr(c, "cr_await", None)
        if nxt is None:
            nxt = getattr(c, "gi_yieldfrom", None)
        if isinstance(nxt, asyncio.Future):
            pts.append(("fut", fut_state(nxt)))
            break
        c = nxt
    return (tuple(pts), bool(getattr(t, "_must_cancel", False)), t.cancelling())


def timer_canon(h: Any, now: float) -> Any:
    if h is None:
        return None
    return (bool(h._cancelled), round(h._when - now, 6), cb_name(h._callback))


class Canon:
    def __init__(self, loop: VLoop) -> None:
        self.loop = loop
        self.now = loop.time()
        self.depth = 0

    def __call__(self, v: Any) -> Any:  # noqa: C901
        self.depth += 1
        try:
            if self.depth > 12:
                raise CannotCanon("too deep")
            return self._c(v)
        finally:
            self.depth -= 1

    def _c(self, v: Any) -> Any:  # noqa: C901
        if v is None or isinstance(v, (bool, int, str, bytes)):
            return v
        if isinstance(v, float):
            return round(v, 9)
        if isinstance(v, enum.Enum):
            return v.name
        if isinstance(v, (bytearray, memoryview)):
            return bytes(v)
        if isinstance(v, events.TimerHandle):
            return timer_canon(v, self.now)
        if isinstance(v, events.Handle):
            return (bool(v._cancelled), cb_name(v._callback))
        if isinstance(v, asyncio.Task):
            return ("task", task_point(v))
        if isinstance(v, asyncio.Future):
            return ("fut", fut_state(v))
        if isinstance(v, BaseException):
            return ("exc", type(v).__name__, str(v)[:80])
        if isinstance(v, type):
            return ("type", v.__name__)
        if isinstance(v, (tuple, list)):
            return tuple(self(x) for x in v)
        if isinstance(v, (set, frozenset)):
            return tuple(sorted((self(x) for x in v), key=repr))
        if isinstance(v, dict):
            return tuple(sorted(((self(k), self(x)) for k, x in v.items()), key=repr))
        if isinstance(v, (types.FunctionType, types.MethodType, types.BuiltinFunctionType, partial)):
            return ("cb", cb_name(v))
        if isinstance(v, asyncio.BaseTransport):
            return ("transport", bool(v.is_closing()))
        if isinstance(v, asyncio.AbstractEventLoop):
            return "loop"
        if isinstance(v, asyncio.Lock):
            return ("lock", v.locked(), len(getattr(v, "_waiters", None) or ()))
        mod = type(v).__module__
        name = type(v).__name__
        if name == "FakeSocket":
            return ("sock", v.fd, v.closed, v.connect_result, tuple(self(x) for x in v.inbox))
        if mod.startswith("aioesphomeapi"):
            return (name, self.obj(v))
        if mod.startswith("noise.") or mod.startswith("cryptography") or mod.startswith("chacha"):
            return ("opaque", name)
        if mod.startswith("google.protobuf") or hasattr(v, "SerializeToString"):
            return (name, v.SerializeToString())
        if mod.startswith("mc."):
            return (name, self.obj(v))
        if mod.startswith("zeroconf"):
            return ("zc", name)
        raise CannotCanon(f"{mod}.{name}")

    def obj(self, o: Any, skip: tuple[str, ...] = ()) -> Any:
        names: list[str] = []
        for klass in type(o).__mro__:
            names.extend(getattr(klass, "__slots__", ()) or ())
        d = getattr(o, "__dict__", None)
        if d:
            names.extend(d.keys())
        out = []
        for n in sorted(set(names)):
            if n in skip or n in ("_loop", "loop", "log_name", "_log_name", "_params",
                                  "__weakref__", "_proto", "_writer", "_cli", "_noise_psk",
                                  "_client_info", "_debug_enabled"):
                continue
            if n == "_connection" and type(o).__name__.endswith("FrameHelper"):
                continue
            try:
                val = getattr(o, n)
            except AttributeError:
                out.append((n, "<unset>"))
                continue
            out.append((n, self(val)))
        return tuple(out)


def loop_canon(loop: VLoop) -> Any:
    now = loop.time()
    ready = tuple((bool(h._cancelled), cb_name(h._callback)) for h in loop._ready if not h._cancelled)
    timers = tuple((round(h._when - now, 6), cb_name(h._callback)) for h in loop.live_timers())
    return (ready, timers)
