"""Generic protobuf message population from descriptors (value alphabets per field type)."""

from __future__ import annotations

import struct
from typing import Any

from google.protobuf.descriptor import FieldDescriptor as FD

INT_TYPES = {FD.TYPE_INT32, FD.TYPE_SINT32, FD.TYPE_SFIXED32}
UINT_TYPES = {FD.TYPE_UINT32, FD.TYPE_FIXED32}
INT64_TYPES = {FD.TYPE_INT64, FD.TYPE_SINT64, FD.TYPE_SFIXED64}
UINT64_TYPES = {FD.TYPE_UINT64, FD.TYPE_FIXED64}


def f32(x: float) -> float:
    return struct.unpack("<f", struct.pack("<f", x))[0]


def is_repeated(fd: Any) -> bool:
    try:
        return bool(fd.is_repeated)
    except AttributeError:
        return fd.label == FD.LABEL_REPEATED


def typical(fd: Any, salt: int = 0) -> Any:
    """A non-default value for a singular field of this type."""
    t = fd.type
    if t == FD.TYPE_BOOL:
        return True
    if t in INT_TYPES:
        return -7 - salt if t != FD.TYPE_SFIXED32 else 7 + salt
    if t in UINT_TYPES:
        return 1234567 + salt
    if t in INT64_TYPES:
        return -(2**40) - salt
    if t in UINT64_TYPES:
        return 2**40 + salt
    if t == FD.TYPE_FLOAT:
        return f32(1.5 + salt)
    if t == FD.TYPE_DOUBLE:
        return 2.25 + salt
    if t == FD.TYPE_STRING:
        return f"s{salt}é\U0001f600"
    if t == FD.TYPE_BYTES:
        return bytes([1, 2, 0, 255, salt % 256])
    if t == FD.TYPE_ENUM:
        vals = [v.number for v in fd.enum_type.values if v.number != 0]
        return vals[salt % len(vals)] if vals else 0
    raise ValueError(f"unsupported field type {t}")


def populate(msg: Any, salt: int = 0, depth: int = 0) -> Any:
    """Set every field of msg to a non-default value (repeated: two elements)."""
    for i, fd in enumerate(msg.DESCRIPTOR.fields):
        s = salt + i
        if fd.type == FD.TYPE_MESSAGE:
            if depth > 3:
                continue
            if is_repeated(fd):
                for k in range(2):
                    populate(getattr(msg, fd.name).add(), s + k, depth + 1)
            else:
                populate(getattr(msg, fd.name), s, depth + 1)
        elif is_repeated(fd):
            getattr(msg, fd.name).extend([typical(fd, s), typical(fd, s + 1)])
        else:
            setattr(msg, fd.name, typical(fd, s))
    return msg


def all_message_classes(pb2: Any) -> dict[str, Any]:
    out = {}
    for name, desc in pb2.DESCRIPTOR.message_types_by_name.items():
        out[name] = getattr(pb2, name)
    return out
