"""Entry point:  python -B -m mc.run <ID> [--tier quick|thorough] [--replay FILE]

Re-executes itself with a fixed hash seed and a private, empty bytecode cache so that it always
runs the current working tree of VERIF_REPO (default /repo) and nothing else.
"""

from __future__ import annotations

import argparse
import importlib
import json
import os
import shutil
import subprocess
import sys
import tempfile
import time
import traceback


def _reexec() -> int:
    tmp = tempfile.mkdtemp(prefix="mc-pyc-")
    envv = dict(os.environ)
    envv["MC_CHILD"] = "1"
    envv["PYTHONHASHSEED"] = "0"
    envv["PYTHONPYCACHEPREFIX"] = tmp
    envv["PYTHONDONTWRITEBYTECODE"] = "1"
    envv.pop("PYTHONASYNCIODEBUG", None)
    try:
        return subprocess.run([sys.executable, "-B", "-m", "mc.run", *sys.argv[1:]], env=envv, check=False).returncode
    finally:
        shutil.rmtree(tmp, ignore_errors=True)


def main() -> int:
    if os.environ.get("MC_CHILD") != "1":
        return _reexec()
    ap = argparse.ArgumentParser()
    ap.add_argument("pid")
    ap.add_argument("--tier", default=os.environ.get("VERIF_TIER") or "quick", choices=["quick", "thorough"])
    ap.add_argument("--replay", default=None)
    a = ap.parse_args()
    pid = a.pid.upper()
    seed = int(os.environ.get("VERIF_SEED", "0") or 0)
    from . import env, evidence
    from .vloop import HarnessError

    try:
        env.load()
        mod = importlib.import_module(f"mc.props.{pid.lower()}")
        if a.replay:
            with open(a.replay, encoding="utf-8") as fh:
                rp = json.load(fh)
            ok = mod.replay(rp)
            return 0 if ok else 1
        t0 = time.monotonic()
        res = mod.run(a.tier, seed)
        return evidence.finalize(res, a.tier, seed, time.monotonic() - t0)
    except HarnessError as e:
        print(f"HARNESS-ERROR property={pid}: {e}", file=sys.stderr)
        traceback.print_exc()
        return 2
    except Exception as e:  # noqa: BLE001
        print(f"HARNESS-ERROR property={pid}: {type(e).__name__}: {e}", file=sys.stderr)
        traceback.print_exc()
        return 2


if __name__ == "__main__":
    sys.exit(main())
