"""C05 - connection state only moves forward; closed is final; one connect per object."""

from __future__ import annotations

import time
from typing import Any

from ..evidence import Result
from ..explore import Stats, explore_parallel
from ..lifecycle import LifeHarness, LifeWorld, Oracle
from ..vloop import HarnessError

PLAIN_ATOMS = ("H", "C", "BV", "BP", "DR", "PR", "ST", "UK", "BAD", "PRE", "ENC")
NOISE_ATOMS = ("NH", "NHE", "H", "C", "BV", "DR", "ST", "BAD", "PRE", "TAMPER")
# a phase-completing frame followed, in the same chunk, by something that closes (or just traffic)
PAIRS = tuple((a, b) for a in ("H", "C", "NH", "DRESP") for b in ("DR", "BAD", "PRE", "ST", "PR", "C", "H"))

SEEDS_PLAIN = ("init", "connecting", "opened", "hello_sent", "connected", "disc_pending", "disc_gave_up")
SEEDS_NOISE = ("opened", "hswait", "hello_sent", "connected")


class C05Oracle(Oracle):
    """The transition relation itself lives in lifecycle.Monitor (runs after every callback)."""

    def attach(self, w: LifeWorld) -> None:
        w.rets = []  # type: ignore[attr-defined]
        w.ret_hook = lambda name: w.rets.append((name, w.outcome(name), w.state()))  # type: ignore[attr-defined]

    def verdict(self, w: LifeWorld) -> list[str]:
        # a fatal error that has taken effect: the library's own transport is gone (closed by the library or torn down under it).
        # Once the loop is quiet the connection must read CLOSED - in particular it must not sit in (or later reach) a connect
        # phase's target state on a dead transport.
        if w.loop.busy() or not w.transports:
            return []
        t = w.transports[-1]
        st = w.state()
        if t.is_closing() and st != "CLOSED":
            return [f"C05:close-lost:the connection's transport is closed and the loop is quiet, yet the state reads {st} (is_connected={w.conn.is_connected})"]
        return []

    def key(self, w: LifeWorld) -> Any:
        return tuple(w.rets)  # type: ignore[attr-defined]


def factory(noise: bool, seed: str, login: bool, addresses: tuple[str, ...] = ("10.0.0.1",)) -> LifeHarness:
    return LifeHarness(
        noise=noise,
        seed=seed,
        atoms=NOISE_ATOMS if noise else PLAIN_ATOMS,
        pairs=PAIRS,
        login=login,
        oracles=(C05Oracle(),),
        addresses=addresses,
    )


HOSTNAME = ("dev.example.com",)  # an address that needs the resolver: the start phase then has a step before any socket exists


def configs(tier: str) -> list[tuple[Any, ...]]:
    out: list[tuple[Any, ...]] = []
    if tier == "quick":
        for s in SEEDS_PLAIN:
            out.append((False, s, True, 3, 2))
        for s in SEEDS_NOISE:
            out.append((True, s, True, 3, 1))
        out.append((False, "init", True, 4, 2, HOSTNAME))
        out.append((False, "hello_sent", True, 3, 2, ("10.0.0.1",), True))
        out.append((False, "connected", True, 3, 2, ("10.0.0.1",), False, "nostop"))
        out.append((False, "init", True, 3, 2, ("10.0.0.1",), False, "weird-connect"))
        out.append((False, "init+sibling", True, 4, 2))
    else:
        out.append((False, "init+sibling", True, 5, 2))
        out.append((False, "connected", True, 4, 2, ("10.0.0.1",), False, "nostop"))
        out.append((True, "hello_sent", True, 3, 2, ("10.0.0.1",), False, "nostop"))
        out.append((False, "init", True, 4, 2, ("10.0.0.1",), False, "weird-connect"))
        out.append((False, "init", True, 4, 2, ("10.0.0.1", "10.0.0.2"), False, "weird-connect"))
        for s in SEEDS_PLAIN:
            out.append((False, s, True, 4, 2))
            out.append((False, s, False, 3, 2))
        for s in SEEDS_NOISE:
            out.append((True, s, True, 4, 2))
        out.append((False, "init", True, 5, 2, HOSTNAME))
        out.append((True, "init", True, 4, 2, HOSTNAME))
        out.append((False, "hello_sent", True, 4, 2, ("10.0.0.1",), True))
        out.append((True, "hswait", True, 4, 2, ("10.0.0.1",), True))
    return out


def run(tier: str, seed: int) -> Result:
    res = Result("C05", "model_checking")
    total = Stats()
    budget = 240.0 if tier == "quick" else 2400.0
    t_end = time.monotonic() + budget
    per_cfg = []
    cfgs = configs(tier)
    for i, cfg in enumerate(cfgs):
        noise, sd, login, depth, bound = cfg[:5]
        addrs = cfg[5] if len(cfg) > 5 else ("10.0.0.1",)
        dbg = bool(cfg[6]) if len(cfg) > 6 else False
        opts = cfg[7] if len(cfg) > 7 else ""
        left = max(5.0, (t_end - time.monotonic()) / min(3, len(cfgs) - i))  # most configurations finish far below their share: a hungry one may take a third of what is left
        from .. import world as _world

        _world.DEFAULT_DEBUG[0] = dbg
        # "nostop": the connection is created without a stop callback (the constructor allows None);
        # "weird-connect": the socket's connect() call raises an exception that is not an OSError (a port above 65535)
        _world.NO_STOP_CALLBACK[0] = opts == "nostop"
        _world.CONNECT_EXC[0] = OverflowError("connect(): port must be 0-65535.") if opts == "weird-connect" else None
        try:
            st = explore_parallel(factory, (noise, sd, login, addrs), depth=depth, bound=bound, budget_s=left, split_depth=1)
        finally:
            _world.DEFAULT_DEBUG[0] = False
            _world.NO_STOP_CALLBACK[0] = False
            _world.CONNECT_EXC[0] = None
        per_cfg.append(
            {
                "noise": noise,
                "seed_state": sd,
                "login": login,
                "addresses": list(addrs),
                "debug_logging": dbg,
                "options": opts,
                "depth": depth,
                "deviation_bound": bound,
                "executions": st.executions,
                "transitions": st.transitions,
                "states": st.states,
                "pruned": st.pruned,
                "time_capped": st.time_capped,
                "distinct_outcomes": len(st.outcomes),
            }
        )
        for v in st.violations:
            clause = v["violated"][0]
            key = f"{'noise' if noise else 'plain'}:{sd}{':hostname' if addrs == HOSTNAME else ''}{':' + opts if opts else ''}:{clause}"
            res.add(
                key,
                clause,
                {"harness": "lifecycle", "noise": noise, "seed_state": sd, "login": login, "addresses": list(addrs), "debug": dbg, "opts": opts, "choices": v["choices"],
                 "violated": v["violated"], "observations": v["observations"]},
            )
        total.merge(st)
    reached = {k[8:] for k in total.tags if k.startswith("reached:")}
    need = {"INITIALIZED", "SOCKET_OPENED", "HANDSHAKE_COMPLETE", "CONNECTED", "CLOSED"}
    if not res.violations and not need <= reached:
        raise HarnessError(f"vacuous exploration: lifecycle states reached = {reached}")
    res.coverage = {
        "states": total.states,
        "transitions": total.transitions,
        "traces_validated_against_impl": total.executions,
        "executions": total.executions,
        "replayed_transitions": total.replayed_transitions,
        "pruned_revisits": total.pruned,
        "distinct_outcomes": len(total.outcomes),
        "max_depth": total.max_depth,
        "lifecycle_states_reached": sorted(reached),
        "configs": per_cfg,
        "exhaustive": not total.time_capped,
        "caps_hit": ["wall-clock budget"] if total.time_capped else [],
        "samples": total.samples[:3],
        "monitor": "state relation + is_connected checked after every loop callback and every user call",
    }
    res.assumptions = [
        "every explored execution runs the real APIConnection on the stock asyncio selector loop over a fake selector/socket",
        "bounds: label sequences up to the stated depth from each seed state with at most the stated number of deviations "
        "(no-drain ordering, two frames in one chunk, armed write fault, API misuse probe)",
        "state fingerprints are 64-bit hashes of an over-fine canonical form (collision probability negligible)",
    ]
    return res


def replay(rp: dict[str, Any]) -> bool:
    d = rp["detail"]
    from .. import world as _world

    _world.DEFAULT_DEBUG[0] = bool(d.get("debug"))
    _world.NO_STOP_CALLBACK[0] = d.get("opts") == "nostop"
    _world.CONNECT_EXC[0] = OverflowError("connect(): port must be 0-65535.") if d.get("opts") == "weird-connect" else None
    h = factory(d["noise"], d["seed_state"], d["login"], tuple(d.get("addresses") or ("10.0.0.1",)))
    w = h.fresh()
    try:
        for lab in d["choices"]:
            h.apply(w, lab)
            v = h.verdict(w)
            if v:
                break
        else:
            v = h.finish(w)
        for line in w.log:
            print(line)
        print("violated:", v)
        return not v
    finally:
        h.close(w)
