"""C18 - reconnect manager: one attempt at a time, specified back-off, clean stop.

Real ReconnectLogic + real APIClient + real APIConnection on the virtual loop; fake zeroconf that records
listener registration and close.  (1) Linear runs read the whole back-off table for each failure class.
(2) Stateless explicit-state exploration (fingerprint-pruned) from seeded manager states over start()/
stop() tasks, TCP and handshake outcomes, session endings, mDNS records delivered to registered listeners,
"advance to the next timer" and "let 0.5 s pass".  A reference justifier decides for every attempt start
(= a new socket) whether some clause of the property justifies it at that virtual instant.
"""

from __future__ import annotations

import time
from typing import Any

from .. import fingerprint
from ..evidence import Result
from ..explore import Stats, explore_parallel
from ..simnet import ZcLog, make_zeroconf_fakes
from ..vloop import HarnessError
from ..world import ConnWorld, mk

EPS = 1e-9
DELTA = 0.5


def formula(n: int) -> float:
    return float(min(int(round(1.8 ** min(n, 50))), 60))


class Canon18(fingerprint.Canon):
    def _c(self, v: Any) -> Any:
        n = type(v).__name__
        if n == "FakeSocket":
            return ("sock", v.closed, v.connect_result, tuple(self(x) for x in v.inbox))
        if n in ("_AsyncZeroconf",):
            return ("azc", v.label.split(":")[0].rstrip("0123456789"), v.closed, len(v.zeroconf.listeners))
        if n in ("_Zeroconf",):
            return ("zc", len(v.listeners), v.closed)
        return super()._c(v)


# how the application hands its hooks to the manager: a bound coroutine method, or any other callable that returns an awaitable
# (a lambda binding extra arguments, functools.partial, an object with an async __call__) - all are awaited by the manager
HOOK_KIND = ["method"]
HOOK_KINDS = ("method", "lambda", "partial", "callable-object")


def _as_hook(f: Any) -> Any:
    import functools

    k = HOOK_KIND[0]
    if k == "lambda":
        return lambda *a: f(*a)
    if k == "partial":
        return functools.partial(f)
    if k == "callable-object":
        class Hook:
            async def __call__(self, *a: Any) -> Any:
                return await f(*a)

        return Hook()
    return f


class RecWorld(ConnWorld):
    def __init__(self, supplied_zc: bool = False, hostname: bool = False, key_text: str | None = None) -> None:
        import aioesphomeapi.host_resolver as hr
        import aioesphomeapi.zeroconf as zmod

        self.zlog = ZcLog()
        self._zmod = zmod
        self._hr = hr
        self._saved_zc = (zmod.Zeroconf, zmod.AsyncZeroconf, hr.AsyncServiceInfo)
        zc_cls, azc_cls, info_cls = make_zeroconf_fakes(self.zlog)
        zmod.Zeroconf = zc_cls  # type: ignore[misc]
        zmod.AsyncZeroconf = azc_cls  # type: ignore[misc]
        hr.AsyncServiceInfo = info_cls  # type: ignore[misc]

        def answer(info: Any, zc: Any, timeout: int) -> bool:
            info.v4 = ["10.0.0.1"]  # the device is always resolvable through mDNS; only TCP and the handshake vary
            return True

        self.zlog.request_script = answer
        self.hostname = hostname
        try:
            kw: dict[str, Any] = {} if key_text is None else {"noise": True, "noise_psk_text": key_text}
            super().__init__(client=True, keepalive=1e6, login=True, device_name="dev",
                             addresses=((hostname if isinstance(hostname, str) else "dev.local"),) if hostname else ("10.0.0.1",), **kw)
        except BaseException:
            zmod.Zeroconf, zmod.AsyncZeroconf, hr.AsyncServiceInfo = self._saved_zc  # type: ignore[misc]
            raise
        self.zlog.now = self.loop.time
        from aioesphomeapi.reconnect_logic import ReconnectLogic

        self.app_zc = azc_cls(label="app") if supplied_zc else None
        self.supplied = supplied_zc
        self.rl = ReconnectLogic(
            client=self.client,
            on_connect=_as_hook(self._on_connect),
            on_disconnect=_as_hook(self._on_disconnect),
            zeroconf_instance=self.app_zc,
            name=None if hostname else "dev",
            on_connect_error=_as_hook(self._on_error),
        )
        # --- monitor state ---
        self.viol: list[str] = []
        self.tags: set[str] = set()
        self.calls: list[tuple[float, str, Any]] = []  # on_connect / on_disconnect / on_connect_error
        self.attempts: list[dict[str, Any]] = []  # one per socket
        self.start_instants: list[float] = []
        self.record_instants: list[float] = []
        self.ends: list[tuple[float, bool]] = []  # (instant, expected) of session endings (on_disconnect)
        self.successes: list[float] = []
        self.failures: list[tuple[float, int, bool, bool]] = []  # (instant, n, auth now, auth earlier in streak)
        self.streak = 0  # failures since the last success / start() call
        self.streak_ret = 0  # failures since the last success / start() return
        self.streak_succ = 0  # failures since the last success only
        self.streak_auth = False
        self.stopped_done_at: float | None = None
        self.last_stopped_at: float | None = None  # the latest instant at which the manager was stopped (stop() had returned)
        self.rl_started = False
        self.counter = 0
        self.in_session = False
        self.sessions_started = 0
        self.sessions_ended = 0
        self.net.on_socket = self._on_socket
        self.loop._after_cb = self._after
        self.ret_hook = self._ret
        self.stop_seq: dict[str, int] = {}
        self.last_start_seq = 0
        self.user_asked_disconnect = False
        self.oblig: list[dict[str, Any]] = []  # reconnects the property promises: {"created", "due", "why"}
        self.stop_issued = False  # a stop() was issued after the last start(): nothing is promised any more
        self.streak_start = 0  # failures since the last start() that returned (whatever the manager was doing at that moment)
        self.report_spans: list[tuple[float, float]] = []  # (begin, end) of error reports that took time (slow application callback)
        # start() was called while a session that had survived a completed stop() was still alive (finding F10)
        self.restart_over_live_session = False

    # --- callbacks of the manager --------------------------------------------------------------------
    async def _on_connect(self) -> None:
        self.calls.append((self.loop.time(), "on_connect", None))
        self.note("on_connect")
        self.successes.append(self.loop.time())
        self.streak = self.streak_ret = self.streak_succ = self.streak_start = 0
        self.streak_auth = False
        self.tags.add("on_connect")
        if getattr(self, "connect_raises", False):
            # the session is established all the same: nothing is reported as a failed attempt, no new attempt starts while it lives
            raise RuntimeError("application on_connect callback failed")

    async def _on_disconnect(self, expected: bool) -> None:
        self.calls.append((self.loop.time(), "on_disconnect", bool(expected)))
        self.note("on_disconnect", bool(expected))
        if self.user_asked_disconnect and not expected:
            self.viol.append("C18:expectedness: the user had called disconnect() on this session, but its end was reported as unexpected "
                             "(no cool-down before the reconnect)")
        self.user_asked_disconnect = False
        self.ends.append((self.loop.time(), bool(expected)))
        self.tags.add("end-expected" if expected else "end-unexpected")
        self.promise(0.0 if not expected else 5.0, "unexpected disconnect: immediately" if not expected else "expected disconnect: after 5 s")

    async def _on_error(self, err: Exception) -> None:
        from aioesphomeapi.core import InvalidAuthAPIError, InvalidEncryptionKeyAPIError, RequiresEncryptionAPIError

        auth = isinstance(err, (InvalidAuthAPIError, InvalidEncryptionKeyAPIError, RequiresEncryptionAPIError))
        self.calls.append((self.loop.time(), "on_connect_error", type(err).__name__))
        self.note("on_connect_error", type(err).__name__)
        c = self.client._connection
        if c is not None and c.is_connected and self.in_session and not self.restart_over_live_session:
            # "reports each failed attempt": while the session the manager itself established is alive there is no attempt that could
            # have failed (the restart-over-a-live-session histories of finding F10 are the known exception)
            self.viol.append(f"C18:error-while-connected: on_connect_error({type(err).__name__}: {str(err)[:60]}) reported while the session is alive")
        self.streak += 1
        self.streak_ret += 1
        self.streak_succ += 1
        self.streak_start += 1
        # "the n-th consecutive failed attempt": consecutive since the last success; a start() in between restarts the count, and it is not
        # specified whether at its call or when it takes effect - every reading is accepted
        self.failures.append((self.loop.time(), tuple(sorted({self.streak, self.streak_ret, self.streak_succ, self.streak_start})), auth, self.streak_auth))
        f = self.failures[-1]
        if not getattr(self, "error_slow", False):
            self.promise(max(self.allowed_waits(f[1], f[2], f[3])), f"failure {f[1]}: back-off")
        else:
            self.oblig = []  # nothing is owed while the application is still being told about the failure
        self.streak_auth = self.streak_auth or auth
        self.tags.add("error:" + type(err).__name__)
        if getattr(self, "error_slow", False):
            # the application's error callback takes its time (it awaits something): the attempt is over, its report is not
            import asyncio as _asyncio

            idx = len(self.failures) - 1
            t_begin = self.loop.time()
            await _asyncio.sleep(0.25)
            self.note("on_connect_error_done")
            self.report_spans.append((t_begin, self.loop.time()))
            # the back-off runs from the moment the failed attempt has been reported completely
            t_old, ns, a1, a2 = self.failures[idx]
            self.failures[idx] = (self.loop.time(), ns, a1, a2)
            self.promise(max(self.allowed_waits(ns, a1, a2)), f"failure {ns}: back-off")

    # --- monitor ----------------------------------------------------------------------------------------
    def promise(self, wait: float, why: str) -> None:
        """The manager owes an attempt no later than now + wait - unless one is in flight, a session is alive or it was stopped."""
        if not self.rl_started or self.stop_issued or self.stopped_done_at is not None:
            return
        if self.live_sock() is not None:
            return
        now = self.loop.time()
        # the latest schedule wins over promises that are still in the future; a promise that is due right now stays due
        self.oblig = [o for o in self.oblig if o["due"] <= now + EPS]
        self.oblig.append({"created": now, "due": now + wait, "why": why})

    def check_promises(self) -> None:
        now = self.loop.time()
        for o in self.oblig:
            if now > o["due"] + EPS:
                self.viol.append(f"C18:missed-reconnect: {o['why']} - promised at {o['created']} for {o['due']} at the latest, "
                                 f"but no attempt had started by {now}")
                break

    def _on_socket(self, s: Any) -> None:
        now = self.loop.time()
        self.oblig = [o for o in self.oblig if not (o["created"] - EPS <= now <= o["due"] + EPS)]
        others = [x for x in self.net.sockets if x is not s and not x.closed]
        self.attempts.append({"t": now, "fd": s.fd})
        self.note("attempt", s.fd)
        if others:
            self.viol.append(f"C18:two-attempts: a new connection attempt starts at {now} while socket(s) {[x.fd for x in others]} are still open")
        if self.stopped_done_at is not None:
            self.viol.append(f"C18:attempt-after-stop: a connection attempt starts at {now}, stop() had returned at {self.stopped_done_at}")
            return
        why = self.justify(now)
        if why is None:
            self.viol.append(f"C18:unjustified-attempt: attempt at {now} is not justified by start(), a failure's back-off, a session ending or an mDNS record "
                             f"(failures {self.failures[-3:]}, ends {self.ends[-2:]}, successes {self.successes[-2:]}, starts {self.start_instants[-2:]}, "
                             f"records {self.record_instants[-2:]})")
        else:
            self.tags.add("just:" + why)

    def allowed_waits(self, ns: tuple[int, ...], auth: bool, auth_before: bool) -> set[float]:
        if auth:
            return {60.0}
        out = {formula(n) for n in ns}
        if auth_before:
            out.add(60.0)
        return out

    def justify(self, now: float) -> str | None:
        # an attempt that was due while the application was still being told about a failure starts when that report ends
        instants = [now] + [b for b, e in self.report_spans if abs(e - now) < EPS]
        if any(abs(t - x) < EPS for t in self.start_instants for x in instants):
            return "start"
        if any(abs(t - x) < EPS for t in self.record_instants for x in instants):
            return "mdns"
        # a stop() that has returned ends everything that was pending: what happened strictly before it justifies nothing afterwards
        cut = -1.0 if self.last_stopped_at is None else self.last_stopped_at - EPS
        for t, expected in self.ends:
            if t < cut:
                continue
            if not expected and any(abs(t - x) < EPS for x in instants):
                return "unexpected-end"
            if expected and any(abs(t + 5.0 - x) < EPS for x in instants):
                return "expected-end+5"
        for x in instants:
            for f, n, auth, auth_before in reversed(self.failures):
                if f < cut:
                    continue
                for w in self.allowed_waits(n, auth, auth_before):
                    if abs(f + w - x) < EPS:
                        between = [y for y in self.successes if f + EPS < y < x - EPS] + [y[0] for y in self.failures if f + EPS < y[0] < x - EPS]
                        if not between:
                            return f"backoff-{int(w)}"
        return None

    def _after(self, handle: Any) -> None:
        c = self.client._connection
        conn = c is not None and c.is_connected
        if conn and not self.in_session:
            self.in_session = True
            self.sessions_started += 1
        elif not conn and self.in_session:
            self.in_session = False
            self.sessions_ended += 1
        if self.stopped_done_at is not None:
            self.check_stopped()

    @property
    def phase(self) -> str:
        """What the environment knows about the current socket: idle | connecting | handshaking | ready."""
        if self.in_session:
            return "ready"
        s = self.live_sock()
        if s is None:
            return "idle"
        # handshaking from the moment the client has written its hello on the socket; a TCP connect that completed in this very
        # loop turn (the manager has not been told yet) still counts as connecting
        return "handshaking" if (s.connect_result == 0 and s.sent) else "connecting"

    def listeners(self) -> int:
        """Listeners that can still be reached: registered on an instance that has not been closed."""
        return sum(len(i.zeroconf.listeners) for i in self.zlog.instances if not i.closed)

    def check_stopped(self) -> None:
        if self.listeners():
            self.viol.append("C18:listening-after-stop: an mDNS listener is registered after stop() returned")
        for i in self.zlog.instances:
            if i.label.startswith("lib") and not i.closed:
                self.viol.append(f"C18:zeroconf-not-closed: zeroconf instance {i.label} created by the library is still open after stop() returned")
            if i.label == "app" and i.closed:
                self.viol.append("C18:supplied-zeroconf-closed: the application's zeroconf instance was closed")

    def _ret(self, name: str) -> None:
        kind = name.split("#")[0]
        if kind == "rl_stop":
            if self.outcome(name) != "ok":
                self.viol.append(f"C18:stop-raised: stop() ended {self.outcome(name)}")
            elif self.last_start_seq < self.stop_seq.get(name, 0):
                # stop() returned and no start() was issued after this stop() was issued: the manager is stopped
                self.stopped_done_at = self.loop.time()
                self.last_stopped_at = self.loop.time()
                self.rl_started = False
                self.check_stopped()
        elif kind == "rl_start":
            if self.outcome(name) != "ok":
                self.viol.append(f"C18:start-raised: start() ended {self.outcome(name)}")
            else:
                # start() may have had to wait for the manager's lock: it takes effect when it returns
                self.start_instants.append(self.loop.time())
                self.streak_start = 0
                if not self.in_session:
                    self.streak_ret = 0

    def live_sock(self) -> Any:
        for s in reversed(self.net.sockets):
            if not s.closed:
                return s
        return None

    def close(self) -> None:
        try:
            super().close()
        finally:
            self._zmod.Zeroconf, self._zmod.AsyncZeroconf, self._hr.AsyncServiceInfo = self._saved_zc  # type: ignore[misc]


def records(kind: str) -> list[Any]:
    from zeroconf import DNSAddress, DNSPointer, RecordUpdate
    from zeroconf.const import _CLASS_IN, _TYPE_A, _TYPE_PTR

    if kind == "zc_ptr":
        r: Any = DNSPointer("_esphomelib._tcp.local.", _TYPE_PTR, _CLASS_IN, 1000, "dev._esphomelib._tcp.local.")
    elif kind == "zc_a":
        r = DNSAddress("dev.local.", _TYPE_A, _CLASS_IN, 1000, b"\x0a\x00\x00\x01")
    elif kind == "zc_other":
        r = DNSPointer("_esphomelib._tcp.local.", _TYPE_PTR, _CLASS_IN, 1000, "other._esphomelib._tcp.local.")
    else:
        r = DNSAddress("other.local.", _TYPE_A, _CLASS_IN, 1000, b"\x0a\x00\x00\x02")
    return [RecordUpdate(r, None)]


class RecHarness:
    def __init__(self, seed: tuple[str, ...], supplied_zc: bool = False, hostname: bool = False, key_text: str | None = None,
                 connect_raises: bool = False) -> None:
        self.seed = list(seed)
        self.supplied = supplied_zc
        self.hostname = hostname
        self.key_text = key_text
        self.connect_raises = connect_raises  # the application's on_connect callback raises (after it has been recorded)
        self.can_fp = True

    def fresh(self) -> RecWorld:
        w = RecWorld(self.supplied, self.hostname, self.key_text)
        w.connect_raises = self.connect_raises
        w.error_slow = getattr(self, "error_slow", False)
        for lab in self.seed:
            self.apply(w, lab)
        return w

    def enabled(self, w: RecWorld) -> list[Any]:
        if w.viol:
            return []
        base: list[Any] = ["rl_start", "rl_stop"]
        io: list[Any] = []
        if w.net.connecting():
            io += ["tcp_ok", "tcp_refused"]
        s = w.live_sock()
        if s is not None and s.connect_result == 0 and not w.net.connecting():
            if w.in_session:
                io += ["DR", "eof", "user_disc", "user_disc_graceful"] + ([] if w.write_fault is not None else ["wf"])
            else:
                io += ["hello_ok", "bad_pw", "marker01", "eof"]
        if w.listeners():
            io += ["zc_ptr", "zc_a", "zc_other"]
        tm: list[Any] = []
        nt = w.loop.next_timer_at()
        if nt is not None and nt <= w.loop.time() + 1000:
            tm.append("time")
            if nt > w.loop.time() + DELTA + EPS:
                tm.append("delta")
        out = base + io + tm
        out += [["nd", b] for b in base + io]
        return out

    def cost(self, label: Any) -> int:
        return 1 if isinstance(label, list) else 0

    def apply(self, w: RecWorld, label: Any) -> None:
        nd = False
        if isinstance(label, list):
            nd = True
            label = label[1]
        w.note("ev", ("nd:" if nd else "") + label)
        io = False
        if label == "rl_start":
            w.counter += 1
            w.last_start_seq = w.counter
            was_stopping, w.stop_issued = w.stop_issued, False
            if was_stopping and (w.in_session or w.live_sock() is not None):
                # a stop() was issued (it may still be waiting for the handshake to end) and the session or attempt from before it is
                # still alive: the manager is being restarted over it
                w.restart_over_live_session = True
            w.start_instants.append(w.loop.time())
            w.rl_started = True
            w.stopped_done_at = None
            w.streak = 0
            w.spawn(f"rl_start#{w.counter}", lambda: w.rl.start())
        elif label == "rl_stop":
            w.counter += 1
            w.stop_seq[f"rl_stop#{w.counter}"] = w.counter
            w.stop_issued = True
            w.oblig = []
            w.spawn(f"rl_stop#{w.counter}", lambda: w.rl.stop())
        elif label == "tcp_cancelled":
            # the pending connect of the socket is cancelled from outside the manager's task (a library underneath giving up, an
            # application-wide cancel scope): one more way for an attempt to fail
            io = True
            s = w.net.connecting()[0]
            key = w.loop._selector.get_key(s.fd)
            fut = next((a for h in key.data if h is not None for a in getattr(h, "_args", ()) if hasattr(a, "cancel") and hasattr(a, "done")), None)
            if fut is None:
                raise HarnessError("no pending connect future found for the connecting socket")
            w.note("io_connect_cancelled", s.fd)
            fut.cancel()
        elif label in ("tcp_ok", "tcp_refused"):
            io = True
            if not w.net.connecting():
                # only reachable from a seed or a directed history: the attempt they rely on never opened a socket
                w.viol.append(f"C18:no-attempt: no connection attempt is in flight where the history expects one (the address did not resolve to a socket; "
                              f"resolver lookups so far: mDNS {[n for n, _ in w.zlog.requests][-2:]}, OS {w.net.gai_calls[-2:]})")
                return
            s = w.net.connecting()[0]
            w.io_connect(s, 0 if label == "tcp_ok" else 111)
        elif label == "hello_ok":
            io = True
            w.io_chunk(w.live_sock(), w.dframe(w.hello_resp()) + w.dframe(w.connect_resp()))
        elif label == "bad_pw":
            io = True
            w.io_chunk(w.live_sock(), w.dframe(w.hello_resp()) + w.dframe(w.connect_resp(invalid=True)))
        elif label == "marker01":
            io = True
            w.io_chunk(w.live_sock(), b"\x01\x00\x00")
        elif label == "eof":
            io = True
            w.io_eof(w.live_sock())
        elif label == "DR":
            io = True
            w.io_chunk(w.live_sock(), w.dframe(mk("DisconnectRequest")))
        elif label == "wf":
            w.write_fault = OSError(32, "Broken pipe (armed)")  # the next write to the device fails synchronously
        elif label == "user_disc":
            w.counter += 1
            w.user_asked_disconnect = True
            w.spawn(f"user_disc#{w.counter}", lambda: w.client.disconnect(force=True))
        elif label == "user_disc_graceful":
            w.counter += 1
            w.user_asked_disconnect = True
            w.spawn(f"user_disc#{w.counter}", lambda: w.client.disconnect())
        elif label.startswith("zc_"):
            matching = label in ("zc_ptr", "zc_a")
            recs = records(label)
            c = w.client._connection
            for inst in [i for i in w.zlog.instances if not i.closed]:
                inst.zeroconf.cache.extend((w.loop.time(), r.new) for r in recs)  # an open instance hears (and caches) what is on the network
                for lst in list(inst.zeroconf.listeners):
                    if matching and w.phase not in ("handshaking", "ready"):
                        w.record_instants.append(w.loop.time())
                    lst.async_update_records(inst.zeroconf, 0.0, recs)
            del c
        elif label == "time":
            w.drain()
            w.advance_next_timer()
        elif label == "delta":
            w.drain()
            w.loop.advance_to(w.loop.time() + DELTA)
            w.note("time", round(w.loop.time(), 6))
        else:
            raise HarnessError(label)
        if not nd:
            w.drain()
        elif io:
            w.step()
        w._after(None)
        if label in ("time", "delta"):
            w.check_promises()

    # --- oracle ---------------------------------------------------------------------------------------------
    def verdict(self, w: RecWorld, final: bool = False) -> list[str]:
        v = list(w.viol)
        # S3: strict alternation, starting with on_connect
        last = None
        for t, kind, arg in w.calls:
            if kind == "on_connect":
                if last == "on_connect" and w.restart_over_live_session:
                    v.append(f"C18:alternation-after-restart-over-live-session: on_connect at {t} follows on_connect without an on_disconnect in "
                             "between (a session survived a completed stop(), start() was called while it was alive, and it ended while the "
                             "new attempt was already queued: its on_disconnect is delivered after the next session's on_connect)")
                elif last == "on_connect":
                    v.append(f"C18:alternation: on_connect at {t} follows on_connect without an on_disconnect in between")
                last = kind
            elif kind == "on_disconnect":
                if last != "on_connect":
                    v.append(f"C18:alternation: on_disconnect at {t} without a preceding on_connect")
                last = kind
        if not w.loop.busy() and w.live_sock() is None and not w.in_session and any(o["why"].startswith("failure") for o in w.oblig):
            # waiting out a back-off: a record for the device can only be "seen" through a listener on an instance that is still open
            if w.listeners() == 0:
                v.append("C18:not-listening: waiting for a timed retry after a failed attempt, but no mDNS listener is registered on an open zeroconf instance")
        nc = sum(1 for c in w.calls if c[1] == "on_connect")
        nd_ = sum(1 for c in w.calls if c[1] == "on_disconnect")
        # a callback may be delayed while the manager is busy (it serialises on a lock); it may never be duplicated or invented
        if nc > w.sessions_started or (final and nc != w.sessions_started):
            v.append(f"C18:on_connect-count: {nc} on_connect calls for {w.sessions_started} established sessions")
        if nd_ > w.sessions_ended or (final and nd_ != w.sessions_ended):
            v.append(f"C18:on_disconnect-count: {nd_} on_disconnect calls for {w.sessions_ended} ended sessions")
        return v

    def finish(self, w: RecWorld) -> list[str]:
        """Obligations: with nothing else happening, the retry / immediate reconnect / cool-down reconnect does happen."""
        w.drain()
        v = self.verdict(w)
        if v:
            return v
        if w.rl_started and w.stopped_done_at is None and not any(w.pending(n) for n in w.tasks if n.startswith("rl_stop")):
            before = len(w.attempts)
            open_ = w.live_sock()
            if open_ is None and not w.in_session:
                # waiting: the next attempt must come, at an instant the justifier accepts, within the maximum back-off
                t0 = w.loop.time()
                w.run_timers(t0 + 61.0)
                w.check_promises()
                v = self.verdict(w)
                if not v and len(w.attempts) == before:
                    v.append(f"C18:no-retry: started, not stopped, no attempt in flight and no session at {t0}, but no attempt starts within 61 s "
                             f"(failures {w.failures[-2:]}, ends {w.ends[-2:]})")
                if v:
                    return v
        # after everything: stop must be clean
        w.counter += 1
        w.stop_seq[f"rl_stop#{w.counter}"] = w.counter
        w.stop_issued = True
        w.oblig = []
        w.spawn(f"rl_stop#{w.counter}", lambda: w.rl.stop())
        w.drain()
        w.run_timers(w.loop.time() + 130.0)
        v = self.verdict(w, final=True)
        if not v and w.stopped_done_at is None:
            v.append("C18:stop-hangs: stop() did not return")
        return v

    def outcome(self, w: RecWorld) -> str:
        return f"att={len(w.attempts)},sess={w.sessions_started},err={len(w.failures)}"

    def tags(self, w: RecWorld) -> list[str]:
        return sorted(w.tags)

    def observe(self, w: RecWorld) -> Any:
        return list(w.log)

    def fingerprint(self, w: RecWorld) -> Any:
        if not self.can_fp:
            return None
        try:
            c = Canon18(w.loop)
            now = w.loop.time()
            pend = tuple(sorted((n.split("#")[0], repr(fingerprint.task_point(t))) for n, t in w.tasks.items() if w.pending(n)))
            last_fail = w.failures[-1] if w.failures else None
            mon = (
                w.streak, w.streak_auth,
                None if last_fail is None else (round(now - last_fail[0], 6), last_fail[1], last_fail[2], last_fail[3],
                                                w.last_stopped_at is not None and last_fail[0] < w.last_stopped_at - EPS),
                tuple((round(now - t, 6), e, w.last_stopped_at is not None and t < w.last_stopped_at - EPS) for t, e in w.ends if now - t <= 5.0 + EPS),
                any(abs(t - now) < EPS for t in w.start_instants), any(abs(t - now) < EPS for t in w.record_instants),
                any(abs(t - now) < EPS for t in w.successes),
                # a success/failure strictly between the last failure and now matters for later justification
                None if last_fail is None else any(last_fail[0] + EPS < x for x in w.successes),
                w.rl_started, w.stopped_done_at is not None, w.in_session, w.phase,
                (w.calls[-1][1] if w.calls else None),
                sum(1 for x in w.calls if x[1] == "on_connect") - w.sessions_started,
                sum(1 for x in w.calls if x[1] == "on_disconnect") - w.sessions_ended,
                tuple((round(o["due"] - now, 6), o["why"].split(":")[0]) for o in w.oblig), w.stop_issued,
            )
            fp = (
                c.obj(w.rl), c.obj(w.client), fingerprint.loop_canon(w.loop), pend,
                tuple(c(s) for s in w.net.sockets if not s.closed),
                tuple(c(i) for i in w.zlog.instances if not i.closed or i.zeroconf.listeners),
                mon,
            )
            return hash(fp)
        except fingerprint.CannotCanon:
            self.can_fp = False
            return None

    def close(self, w: RecWorld) -> None:
        w.close()


def factory(seed: tuple[str, ...], supplied: bool = False, hostname: bool = False, connect_raises: bool = False, error_slow: bool = False) -> RecHarness:
    h = RecHarness(seed, supplied, hostname, None, connect_raises)
    h.error_slow = error_slow
    return h


# ---------------------------------------------------------------------------------------------------
# linear runs: the whole back-off table
# ---------------------------------------------------------------------------------------------------
def linear_runs(res: Result) -> dict[str, Any]:
    import base64 as _b64

    h0 = RecHarness(())
    # a key the user pasted with a trailing no-break space, and one that is not base64 at all: an encryption error at every attempt
    h_key1 = RecHarness((), key_text=_b64.b64encode(bytes(range(32))).decode() + "\u00a0")
    h_key2 = RecHarness((), key_text="not a key")
    table: dict[str, list[float]] = {}
    runs = 0
    for cls, steps in (("tcp_refused", ["tcp_refused"]), ("eof_in_handshake", ["tcp_ok", "eof"]), ("bad_pw", ["tcp_ok", "bad_pw"]),
                       ("marker01", ["tcp_ok", "marker01"]), ("handshake_silence", ["tcp_ok", "time"]), ("tcp_cancelled", ["tcp_cancelled"]),
                       ("mixed", None), ("long_outage", ["tcp_refused"]), ("key_with_nbsp", ["tcp_ok"]), ("key_not_base64", ["tcp_ok"])):
        h = h_key1 if cls == "key_with_nbsp" else h_key2 if cls == "key_not_base64" else h0
        w = h.fresh()
        try:
            h.apply(w, "rl_start")
            gaps: list[float] = []
            # long_outage: the device stays away for about a day (1300 consecutive failures, one minute apart after the first few)
            for n in range(1, 1301 if cls == "long_outage" else 14):
                if w.viol:
                    break
                seq = steps if steps is not None else (["tcp_refused"] if n % 2 else ["tcp_ok", "eof"])
                if not w.net.connecting():
                    w.viol.append(f"C18:linear:{cls}: no attempt in flight before failure {n}")
                    break
                for lab in seq:
                    h.apply(w, lab)
                fail_t = w.failures[-1][0] if w.failures else None
                if len(w.failures) != n:
                    w.viol.append(f"C18:linear:{cls}: {len(w.failures)} failures reported after {n} failed attempts")
                    break
                before = len(w.attempts)
                guard = 0
                while len(w.attempts) == before and guard < 6 and not w.viol:
                    h.apply(w, "time")
                    guard += 1
                if len(w.attempts) == before:
                    w.viol.append(f"C18:linear:{cls}: no retry after failure {n}")
                    break
                gaps.append(round(w.attempts[-1]["t"] - fail_t, 6))
            runs += 1
            table[cls] = gaps if len(gaps) < 20 else gaps[:12] + ["...", len(gaps)]  # type: ignore[list-item]
            auth = cls in ("bad_pw", "marker01", "key_with_nbsp", "key_not_base64")
            for i, g in enumerate(gaps, start=1):
                want = 60.0 if auth else formula(i)
                if abs(g - want) > EPS:
                    w.viol.append(f"C18:backoff:{cls}: retry after failure {i} came {g} s later, expected {want}")
                    break
            for x in h.verdict(w):
                res.add(":".join(x.split(":")[:3])[:70], x, {"harness": "c18-linear", "class": cls, "observations": list(w.log)[-40:]})
        finally:
            h.close(w)
    return {"linear_runs": runs, "backoff_table": table}


SEEDS: list[tuple[Any, ...]] = [
    ((), False),
    (("rl_start",), False),
    (("rl_start", "tcp_refused"), False),
    (("rl_start", "tcp_refused", "time", "tcp_refused"), False),
    (("rl_start", "tcp_ok"), False),
    (("rl_start", "tcp_ok", "hello_ok"), False),
    (("rl_start", "tcp_ok", "hello_ok", "DR"), False),
    (("rl_start", "tcp_ok", "hello_ok", "eof"), False),
    (("rl_start", "tcp_ok", "bad_pw"), False),
    (("rl_start", "rl_stop"), False),
    (("rl_start", "tcp_refused", "rl_stop", "rl_start"), False),
    (("rl_start", "tcp_refused"), True),
    (("rl_start", "tcp_refused", "delta", "zc_ptr"), False),
    (("rl_start", "tcp_refused", "delta", "zc_ptr", "tcp_ok", "hello_ok"), False),
    (("rl_start", "tcp_refused"), False, True),
    (("rl_start", "tcp_ok", "hello_ok"), False, True),
    (("rl_start", "tcp_ok", "hello_ok", "rl_stop"), False),  # stopped, the session still alive
    (("rl_start", "tcp_refused"), False, "dev.local."),  # the address written fully qualified (trailing dot), no name given
    (("rl_start", "tcp_refused", "time", "time"), False, False, False, True),  # the application's on_connect_error callback suspends (0.25 s)
    (("rl_start", "tcp_ok"), False, False, True),  # the application's on_connect callback raises
    (("rl_start", "tcp_refused", "time", "tcp_ok"), False, False, True),
]


# histories both tiers always execute (beyond the quick tier's depth); the first one reproduces finding F10
DIRECTED: list[tuple[tuple[str, ...], list[Any]]] = [
    ((), ["rl_start", "tcp_ok", "rl_stop", "hello_ok", ["nd", "rl_start"], "user_disc", "tcp_ok", "hello_ok", "time"]),
    ((), ["rl_start", "tcp_ok", "rl_stop", "hello_ok", ["nd", "rl_start"], "rl_start", "eof", "time", "time", "tcp_refused", "time"]),
    ((), ["rl_start", "tcp_ok", "rl_stop", "hello_ok", "rl_start", "time", "time", "eof", "tcp_ok", "hello_ok", "DR", "time"]),
]


HOOK_HISTORY = ["rl_start", "tcp_refused", "time", "tcp_ok", "hello_ok", "eof", "tcp_ok", "hello_ok", "DR", "time", "tcp_refused", "time"]


def directed_runs(res: Result) -> int:
    n = 0
    for sd, choices, hook_kind in [(a, b, "method") for a, b in DIRECTED] + [((), HOOK_HISTORY, k) for k in HOOK_KINDS]:
        h = factory(sd, False, False)
        HOOK_KIND[0] = hook_kind
        try:
            w = h.fresh()
        finally:
            HOOK_KIND[0] = "method"
        try:
            v: list[str] = []
            done: list[Any] = []
            for lab in choices:
                if lab not in h.enabled(w):
                    continue
                h.apply(w, lab)
                done.append(lab)
                v = h.verdict(w)
                if v:
                    break
            else:
                v = h.finish(w)
            n += 1
            if v:
                res.add(":".join(v[0].split(":")[:2])[:70], v[0] + (f" [hooks given as {hook_kind}]" if hook_kind != "method" else ""),
                        {"harness": "c18", "seed": list(sd), "supplied": False, "hostname": False, "hook_kind": hook_kind,
                         "choices": done, "violated": v, "observations": list(w.log)})
        finally:
            h.close(w)
    return n


def run(tier: str, seed: int) -> Result:
    res = Result("C18", "model_checking")
    q = tier == "quick"
    lin = linear_runs(res)
    lin["directed_histories"] = directed_runs(res)
    total = Stats()
    budget = 200.0 if q else 3000.0
    t_end = time.monotonic() + budget
    per = []
    for i, cfg in enumerate(SEEDS):
        sd, supplied = cfg[0], cfg[1]
        hostname = (cfg[2] if isinstance(cfg[2], str) else bool(cfg[2])) if len(cfg) > 2 else False
        connect_raises = bool(cfg[3]) if len(cfg) > 3 else False
        error_slow = bool(cfg[4]) if len(cfg) > 4 else False
        depth, bound = (4, 1) if q else (6, 2)
        left = max(5.0, (t_end - time.monotonic()) / min(3, len(SEEDS) - i))  # most configurations finish far below their share: a hungry one may take a third of what is left
        st = explore_parallel(factory, (sd, supplied, hostname, connect_raises, error_slow), depth=depth, bound=bound, budget_s=left, split_depth=1)
        per.append({"seed": list(sd), "application_zeroconf": supplied, "hostname_address": hostname, "on_connect_raises": connect_raises, "on_connect_error_slow": error_slow, "depth_after_seed": depth, "deviation_bound": bound,
                    "executions": st.executions, "states": st.states, "transitions": st.transitions, "time_capped": st.time_capped})
        for v in st.violations:
            clause = v["violated"][0]
            kind = ":".join(clause.split(":")[:2])[:70]
            res.add(kind, clause, {"harness": "c18", "seed": list(sd), "supplied": supplied, "hostname": hostname, "connect_raises": connect_raises, "error_slow": error_slow,
                                   "choices": v["choices"], "violated": v["violated"],
                                   "observations": v["observations"]})
        total.merge(st)
    need = {"on_connect", "end-expected", "end-unexpected", "just:start", "just:mdns", "just:unexpected-end", "just:expected-end+5", "just:backoff-2"}
    if not res.violations and not need <= set(total.tags):
        raise HarnessError(f"vacuous: tags {sorted(total.tags)}")
    res.coverage = {
        "states": total.states,
        "transitions": total.transitions,
        "traces_validated_against_impl": total.executions + lin["linear_runs"],
        "executions": total.executions,
        "distinct_outcomes": len(total.outcomes),
        "justifications_seen": sorted(t[5:] for t in total.tags if t.startswith("just:")),
        "errors_seen": sorted(t[6:] for t in total.tags if t.startswith("error:")),
        **lin,
        "configs": per,
        "exhaustive": not total.time_capped,
        "caps_hit": ["wall-clock budget"] if total.time_capped else [],
        "samples": total.samples[:3],
    }
    res.assumptions = [
        "an attempt start is the creation of a socket (the address is an IP literal, one socket per attempt)",
        "'earlier/later' means strictly earlier/later virtual time; events at one instant do not invalidate each other's justification",
        "a stop() that has returned ends everything that was pending: failures and session endings strictly before it justify no attempt "
        "after a later start()",
        "n counts failures reported through on_connect_error since the last on_connect or start(); an attempt the manager cancels itself in order "
        "to start a new one is counted if (and only if) it is reported through on_connect_error",
        "once an authentication/encryption error occurred in a failure streak, 60 s or the formula's value is accepted for later failures of that streak",
        "mDNS records are delivered only to listeners registered at that moment (as real zeroconf does); a matching record justifies an attempt "
        "unless the environment knows the current socket is handshaking or in session",
        "obligation side: with nothing else happening an attempt must start within 61 s whenever the manager is started, not stopped, "
        "has no attempt in flight and no session",
    ]
    return res


def replay(rp: dict[str, Any]) -> bool:
    d = rp["detail"]
    if d.get("harness") == "c18-linear":
        res = Result("C18", "model_checking")
        linear_runs(res)
        bad = [v for v in res.violations if v.key == rp["key"]]
        print(rp["key"], "->", "still violated" if bad else "holds")
        return not bad
    h = factory(tuple(d["seed"]), d.get("supplied", False), d.get("hostname", False), d.get("connect_raises", False), d.get("error_slow", False))
    HOOK_KIND[0] = d.get("hook_kind", "method")
    try:
        w = h.fresh()
    finally:
        HOOK_KIND[0] = "method"
    try:
        v: list[str] = []
        for lab in d["choices"]:
            h.apply(w, lab)
            v = h.verdict(w)
            if v:
                break
        else:
            v = h.finish(w)
        for line in w.log:
            print(line)
        print("violated:", v)
        return not v
    finally:
        h.close(w)
