"""C11 - request-response calls get exactly their responses and leave nothing behind."""

from __future__ import annotations

from asyncio import events
import time
from typing import Any

from .. import env, fingerprint
from ..evidence import Result
from ..explore import Stats, explore_parallel
from ..vloop import HarnessError, timer_name
from ..world import ConnWorld, mk

# call templates -------------------------------------------------------------------------------------
#   A: single response (DeviceInfoResponse), timeout 5
#   C: a second, independent call on the same response type, timeout 10
#   B: list-until-done over three types with accept/stop predicates, timeout 10
CALLS = {
    "A": {"types": ("DeviceInfoResponse",), "timeout": 5.0},
    "C": {"types": ("DeviceInfoResponse",), "timeout": 10.0},
    "B": {"types": ("ListEntitiesSensorResponse", "ListEntitiesSwitchResponse", "ListEntitiesDoneResponse"), "timeout": 10.0},
    # D overlaps B on one of the three types only (a plain single-response call)
    "D": {"types": ("ListEntitiesDoneResponse",), "timeout": 7.0},
    # R is only ever started from inside a user message callback, while a DeviceInfoResponse is being dispatched ("reent:" configurations)
    "R": {"types": ("DeviceInfoResponse",), "timeout": 5.0},
}
# device messages: name -> (message type, kwargs)
MSGS = {
    "DI": ("DeviceInfoResponse", {"name": "n1"}),
    "DJ": ("DeviceInfoResponse", {"name": "n2"}),
    "LS": ("ListEntitiesSensorResponse", {"key": 1}),
    "LW": ("ListEntitiesSwitchResponse", {"key": 2}),
    "LX": ("ListEntitiesSensorResponse", {"key": 99}),  # subscribed type that B's accept predicate rejects
    "LD": ("ListEntitiesDoneResponse", {}),
    "UN": ("SensorStateResponse", {"key": 5, "state": 1.0}),
    "DR": ("DisconnectRequest", {}),
}
SINGLES = ("DI", "LS", "LW", "LX", "LD", "UN")
PAIRS = (("LS", "LD"), ("LD", "LS"), ("DI", "DJ"), ("LD", "LD"), ("DI", "LS"), ("LX", "LD"), ("DI", "DR"), ("LS", "DR"), ("DR", "DI"))


def b_accept(m: Any) -> bool:
    return type(m).__name__ != "ListEntitiesDoneResponse" and getattr(m, "key", 0) != 99


def b_stop(m: Any) -> bool:
    return type(m).__name__ == "ListEntitiesDoneResponse"


def ref_accept(call: str, mname: str) -> bool:
    t = MSGS[mname][0]
    if t not in CALLS[call]["types"]:
        return False
    if call in ("A", "C", "D", "R"):
        return True
    return mname not in ("LD", "LX")


def ref_stop(call: str, mname: str) -> bool:
    t = MSGS[mname][0]
    if t not in CALLS[call]["types"]:
        return False
    if call in ("A", "C", "D", "R"):
        return True
    return mname == "LD"


class RefCall:
    def __init__(self, name: str, start: float) -> None:
        self.name = name
        self.start = start
        self.due = start + CALLS[name]["timeout"]
        self.got: list[str] = []
        self.state = "pending"  # pending | result | timeout | closed | cancelled?
        self.end_time: float | None = None
        self.cancel_requested = False
        self.cancel_after_stop = False


class ReqWorld(ConnWorld):
    def __init__(self, noise: bool = False) -> None:
        super().__init__(keepalive=1e6, noise=noise)
        self.ref: dict[str, RefCall] = {}
        self.viol: list[str] = []
        self.chunks: list[list[str]] = []
        self.closed_at: float | None = None
        self.base_handlers: dict[str, int] | None = None
        self.base_waiters = 0
        self.base_timers: list[str] = []
        self.forced = False
        self.net.on_socket = self._hook
        self.loop._before_cb = self._before
        self.loop._after_cb = self._after
        self.endings: set[str] = set()
        self.reent = False  # a user callback on DeviceInfoResponse that starts call R while the message is being dispatched
        self.cb_registered = False
        self.cb_unsub: Any = None
        self.cb_seen: list[str] = []
        self.cb_expected: list[str] = []
        self.start_r: Any = None

    def install_reent(self, start_r: Any) -> None:
        """One user listener on DeviceInfoResponse: the first message makes it start call R from inside the dispatch, the
        next one (once R exists) makes it unsubscribe itself from inside the dispatch."""
        pb = env.pb()
        self.reent = True
        self.start_r = start_r

        def cb(msg: Any) -> None:
            self.cb_seen.append(msg.name)
            if "R" not in self.tasks:
                self.start_r()
            elif self.cb_registered:
                self.cb_registered = False
                self.cb_unsub()

        self.cb_unsub = self.conn.add_message_callback(cb, (pb.DeviceInfoResponse,))
        self.cb_registered = True
        self.ref_cb_registered = True
        self.ref_r_started = False

    def _hook(self, s: Any) -> None:
        s.on_recv = self._on_recv

    # reference: events in processing order ---------------------------------------------------------------
    def _on_recv(self, s: Any, item: Any) -> None:
        if not isinstance(item, (bytes, bytearray)) or not item:
            return
        if not self.chunks:
            return
        atoms = self.chunks.pop(0)
        open_ = self.conn.connection_state.name == "CONNECTED"
        for a in atoms:
            if not open_:
                break
            if a == "DR":
                open_ = False
                self._ref_close()
                break
            for rc in self.ref.values():
                if rc.state != "pending":
                    continue
                if ref_accept(rc.name, a):
                    rc.got.append(a)
                if ref_stop(rc.name, a):
                    rc.state = "result"
                    rc.end_time = self.loop.time()
            if self.reent and a in ("DI", "DJ") and self.ref_cb_registered:
                # the listener sees this message after the calls registered before it were served (or before: a set has no
                # order, and the outcome is the same); a call it starts now gets the messages that follow, not this one
                self.cb_expected.append(MSGS[a][1]["name"])
                if not self.ref_r_started:
                    self.ref_r_started = True
                    self.ref["R"] = RefCall("R", self.loop.time())
                else:
                    self.ref_cb_registered = False

    def _ref_close(self) -> None:
        if self.closed_at is None:
            self.closed_at = self.loop.time()
        for rc in self.ref.values():
            if rc.state == "pending":
                rc.state = "closed"
                rc.end_time = self.loop.time()

    def _before(self, handle: Any) -> None:
        if isinstance(handle, events.TimerHandle) and timer_name(handle) == "handle_timeout":
            when = handle._when
            for rc in self.ref.values():
                if rc.state == "pending" and abs(rc.due - when) < 1e-9:
                    rc.state = "timeout"
                    rc.end_time = self.loop.time()

    def _after(self, handle: Any) -> None:
        if self.conn.connection_state.name == "CLOSED":
            self._ref_close()

    # leftovers ------------------------------------------------------------------------------------------------
    def handler_table(self) -> dict[str, int] | None:
        hs = getattr(self.conn, "_message_handlers", None)
        if hs is None:
            return None
        return {k.__name__: len(v) for k, v in hs.items() if len(v)}

    def waiters(self) -> int | None:
        ws = getattr(self.conn, "_read_exception_futures", None)
        return None if ws is None else len(ws)


class ReqHarness:
    def __init__(self, seed: str, nd: bool = True, pairs: bool = True) -> None:
        self.noise = seed.startswith("noise:")  # the same exploration over the encrypted transport
        seed = seed.replace("noise:", "")
        # a transport that recycles its receive buffer, every device chunk arriving in two reads (the first read ends mid-frame)
        self.recycle = seed.startswith("recycle:")
        seed = seed.replace("recycle:", "")
        self.reent = seed.startswith("reent:")
        seed = seed.replace("reent:", "")
        # every device chunk arrives in two reads, the first one ending one byte short (complete frames, then an incomplete one)
        self.split = seed.startswith("split:")
        seed = seed.replace("split:", "")
        if self.split:
            nd = False
        if self.recycle:
            nd = False
        self.seed = seed
        self.nd = nd
        self.pairs = pairs
        self.can_fp = True

    def fresh(self) -> ReqWorld:
        from .. import world as _world

        _world.RECYCLE_RX[0] = self.recycle
        try:
            return self._fresh()
        finally:
            _world.RECYCLE_RX[0] = False

    def _fresh(self) -> ReqWorld:
        w = ReqWorld(self.noise)
        if self.noise:
            w.connect_fully_split()  # one frame per chunk: this check is about what happens to responses, not about the connect phase
        else:
            w.connect_fully()
        w.base_handlers = w.handler_table()
        w.base_waiters = w.waiters() or 0
        w.base_timers = sorted(timer_name(h) for h in w.loop.live_timers())
        if self.reent:
            w.install_reent(lambda: self._start(w, "R", from_callback=True))
        for c in self.seed:
            if c in CALLS:
                self._start(w, c)
                w.drain()
            elif c == ".":
                # the calls started so far are completed by the device before the next one starts
                self.apply(w, "m:DI+LD")
        return w

    def _start(self, w: ReqWorld, name: str, from_callback: bool = False) -> None:
        pb = env.pb()
        spec = CALLS[name]
        types = tuple(getattr(pb, t) for t in spec["types"])
        conn = w.conn
        if not from_callback:  # the reference started R when the message was read
            w.ref[name] = RefCall(name, w.loop.time())
        elif name not in w.ref:
            w.viol.append("C11:reent:the listener was called for a message the reference did not deliver to it")
            w.ref[name] = RefCall(name, w.loop.time())
        if name == "B":
            req = mk("ListEntitiesRequest")
            w.spawn(name, lambda: conn.send_messages_await_response_complex((req,), b_accept, b_stop, types, spec["timeout"]))
        else:
            req = mk("DeviceInfoRequest") if name != "D" else mk("ListEntitiesRequest")
            w.spawn(name, lambda: conn.send_message_await_response(req, types[0], spec["timeout"]))

    def enabled(self, w: ReqWorld) -> list[Any]:
        base: list[Any] = []
        for c in CALLS:
            if c not in w.tasks and c != "R":
                base.append(f"call:{c}")
        for c in w.tasks:
            if w.pending(c) and not w.ref[c].cancel_requested:
                base.append(f"cancel:{c}")
        s = w.sock
        if s is not None and not s.closed:
            base += [f"m:{a}" for a in SINGLES]
            if self.pairs:
                base += [f"m:{a}+{b}" for a, b in PAIRS]
            base += ["m:DR", "eof", "rst", "etimedout"]
            if not w.forced:
                base.append("force")
        nt = w.loop.next_timer_at()
        if nt is not None and nt <= w.loop.time() + 100:
            base.append("time")
        out = list(base)
        if self.nd:
            out += [["nd", b] for b in base]
        return out

    def cost(self, label: Any) -> int:
        c = 0
        if isinstance(label, list):
            c += 1
            label = label[1]
        if label.startswith("m:") and "+" in label:
            c += 1
        return c

    def apply(self, w: ReqWorld, label: Any) -> None:
        nd = False
        if isinstance(label, list):
            nd = True
            label = label[1]
        w.note("ev", ("nd:" if nd else "") + label)
        kind = "user"
        if label.startswith("call:"):
            if w.conn.connection_state.name != "CONNECTED":
                # calls on a closed connection are refused (C19's business); not part of this harness
                w.tasks[label[5:]] = None  # type: ignore[assignment]
                w.results[label[5:]] = ("skipped", None, w.loop.time())
            else:
                self._start(w, label[5:])
        elif label.startswith("cancel:"):
            rc = w.ref[label[7:]]
            rc.cancel_requested = True
            rc.cancel_after_stop = rc.state != "pending"
            w.cancel(label[7:])
        elif label.startswith("m:"):
            kind = "io"
            atoms = label[2:].split("+")
            data = b"".join(w.dframe(mk(MSGS[a][0], **MSGS[a][1])) for a in atoms)
            if (self.recycle or self.split) and len(data) > 3:
                cut = len(data) // 2 + 1 if self.recycle else len(data) - 1
                w.chunks.append([])
                w.io_chunk(w.sock, data[:cut])
                w.step()
                w.drain()
                data = data[cut:]
            w.chunks.append(atoms)
            w.io_chunk(w.sock, data)
        elif label == "eof":
            kind = "io"
            w.io_eof(w.sock)
        elif label == "rst":
            kind = "io"
            w.io_rst(w.sock)
        elif label == "etimedout":
            # the kernel gave up retransmitting: recv() raises the builtin TimeoutError (the class asyncio.TimeoutError is an alias of)
            kind = "io"
            w.sock.inbox.append(TimeoutError(110, "Connection timed out"))
            w.note("io_etimedout", w.sock.fd)
        elif label == "force":
            w.forced = True
            try:
                w.conn.force_disconnect()
            except Exception as e:  # noqa: BLE001
                w.viol.append(f"C11:closed:force_disconnect() raised {type(e).__name__}: {e} while calls were outstanding")
            w._after(None)
        elif label == "time":
            kind = "time"
            w.drain()  # time only passes while the loop is idle: pending wake-ups run at the current instant
            w.advance_next_timer()
        else:
            raise HarnessError(label)
        if not nd:
            w.drain()
        elif kind == "io":
            w.step()

    # oracle ------------------------------------------------------------------------------------------------------
    def _check_call(self, w: ReqWorld, name: str) -> list[str]:
        from aioesphomeapi.core import APIConnectionError, TimeoutAPIError

        v = []
        rc = w.ref.get(name)
        r = w.results.get(name)
        if rc is None or r is None or r[0] == "skipped":
            return v
        kind, val, t = r
        w.endings.add(kind if kind != "exc" else type(val).__name__)
        if rc.cancel_requested and kind == "cancelled":
            return v
        if rc.cancel_requested and not rc.cancel_after_stop:
            v.append(f"C11:cancel:{name} was cancelled while waiting but ended {w.outcome(name)}")
            return v
        if rc.state == "pending":
            v.append(f"C11:early:{name} ended ({w.outcome(name)}) although neither its stop message, its timeout nor a close happened")
        elif rc.state == "result":
            if kind != "ok":
                v.append(f"C11:result:{name} ended {w.outcome(name)} although its stop message arrived first")
            else:
                msgs = val if isinstance(val, list) else [val]
                got = [(type(m).__name__, m.SerializeToString()) for m in msgs]
                exp = [(MSGS[a][0], mk(MSGS[a][0], **MSGS[a][1]).SerializeToString()) for a in rc.got]
                if got != exp:
                    v.append(f"C11:result:{name} returned {[g[0] for g in got]} (n={len(got)}), reference says {rc.got}")
        elif rc.state == "timeout":
            if kind != "exc" or not isinstance(val, TimeoutAPIError):
                v.append(f"C11:timeout:{name} ended {w.outcome(name)}, reference says timeout at {rc.due}")
            elif abs(t - rc.due) > 1e-9:
                v.append(f"C11:timeout:{name} timed out at {t}, exactly {rc.due} expected")
        elif rc.state == "closed":
            if kind != "exc" or not isinstance(val, APIConnectionError) or isinstance(val, TimeoutAPIError):
                v.append(f"C11:closed:{name} ended {w.outcome(name)} although the connection closed while it was waiting")
            elif rc.end_time is not None and abs(t - rc.end_time) > 1e-9:
                v.append(f"C11:closed:{name} failed at {t}, the connection closed at {rc.end_time}")
        return v

    def verdict(self, w: ReqWorld) -> list[str]:
        v = list(w.viol)
        for name in list(w.results):
            v += self._check_call(w, name)
        if w.reent and w.cb_seen != w.cb_expected[: len(w.cb_seen)]:
            v.append(f"C11:reent:listener saw {w.cb_seen}, reference says {w.cb_expected}")
        if not w.loop.busy():
            if w.reent and w.cb_seen != w.cb_expected and w.conn.connection_state.name != "CLOSED":
                v.append(f"C11:reent:listener saw {w.cb_seen}, reference says {w.cb_expected}")
            # a call whose reference has ended must have returned by the time the loop is quiet
            for name, rc in w.ref.items():
                if rc.state != "pending" and w.pending(name):
                    v.append(f"C11:stuck:{name} still pending although the reference ended it ({rc.state})")
            v += self._leftovers(w)
        return v

    def _leftovers(self, w: ReqWorld) -> list[str]:
        v = []
        pend = [n for n in w.ref if w.pending(n)]
        closed = w.conn.connection_state.name == "CLOSED"
        table = w.handler_table()
        if table is not None and w.base_handlers is not None and not closed:
            exp = dict(w.base_handlers)
            if w.cb_registered:
                exp["DeviceInfoResponse"] = exp.get("DeviceInfoResponse", 0) + 1
            for n in pend:
                for t in CALLS[n]["types"]:
                    exp[t] = exp.get(t, 0) + 1
            if table != exp:
                diff = {k: (table.get(k, 0), exp.get(k, 0)) for k in set(table) | set(exp) if table.get(k, 0) != exp.get(k, 0)}
                v.append(f"C11:leftover-handler:handler table differs from baseline + outstanding calls {pend}: (actual, expected) {diff}")
        if table is not None and w.base_handlers is not None and closed:
            base = dict(w.base_handlers)
            if w.cb_registered:
                base["DeviceInfoResponse"] = base.get("DeviceInfoResponse", 0) + 1
            extra = {k: n - base.get(k, 0) for k, n in table.items() if n > base.get(k, 0)}
            if extra:
                v.append(f"C11:leftover-handler:handlers left after every call ended: {extra}")
        ws = w.waiters()
        if ws is not None and ws != (0 if closed else w.base_waiters + len(pend)):
            v.append(f"C11:leftover-waiter:{ws} waiters registered, {len(pend)} calls outstanding")
        timers = [timer_name(h) for h in w.loop.live_timers()]
        n_to = timers.count("handle_timeout")
        if n_to != len(pend):
            v.append(f"C11:leftover-timer:{n_to} request timers armed, {len(pend)} calls outstanding")
        return v

    def finish(self, w: ReqWorld) -> list[str]:
        w.drain()
        w.run_timers(w.loop.time() + 30.0)
        v = self.verdict(w)
        for name in w.ref:
            if w.pending(name):
                v.append(f"C11:hang:{name} never ended")
        return v

    def outcome(self, w: ReqWorld) -> str:
        return ",".join(f"{n}={w.outcome(n)}/{w.ref[n].state if n in w.ref else '-'}" for n in sorted(w.tasks))

    def tags(self, w: ReqWorld) -> list[str]:
        return ["end:" + e for e in w.endings]

    def observe(self, w: ReqWorld) -> Any:
        return list(w.log)

    def fingerprint(self, w: ReqWorld) -> Any:
        if not self.can_fp:
            return None
        try:
            c = fingerprint.Canon(w.loop)
            fp = (
                c.obj(w.conn),
                fingerprint.loop_canon(w.loop),
                tuple((n, fingerprint.task_point(t)) for n, t in sorted(w.tasks.items()) if t is not None),
                tuple((n, r[0], type(r[1]).__name__, len(r[1]) if isinstance(r[1], list) else 0) for n, r in sorted(w.results.items())),
                tuple(c(s) for s in w.net.sockets),
                tuple((n, rc.state, tuple(rc.got), round(rc.due - w.loop.time(), 6), rc.cancel_requested, rc.cancel_after_stop)
                      for n, rc in sorted(w.ref.items())),
                tuple(tuple(x) for x in w.chunks),
                w.forced,
                (tuple(w.cb_seen), tuple(w.cb_expected), w.cb_registered),
            )
            return hash(fp)
        except fingerprint.CannotCanon:
            self.can_fp = False
            return None

    def close(self, w: ReqWorld) -> None:
        w.close()


def factory(seed: str) -> ReqHarness:
    return ReqHarness(seed)


def class_sweep(res: Result) -> int:
    """'...fails with the connection's error when the connection closes': for every close cause the outstanding calls end at that instant
    with the same (non-timeout) connection error class whether or not a graceful disconnect happens to be pending, and leave no timer."""
    from aioesphomeapi.core import APIConnectionError, TimeoutAPIError

    n = 0
    causes = ("eof", "rst", "etimedout", "garbage", "force", "undecodable")
    for noise in (False, True):
        for cause in causes:
            classes: dict[str, dict[str, str]] = {}
            for variant in ("plain", "disconnect-pending", "stop-callback-raises"):
                if variant == "stop-callback-raises" and cause == "force":
                    continue  # the application's own exception comes back out of its own force_disconnect() call
                key = f"class:{'noise' if noise else 'plain'}:{cause}:{variant}"
                h = ReqHarness(("noise:" if noise else "") + "AB", nd=False)
                w = h.fresh()
                try:
                    w.stop_raises = variant == "stop-callback-raises"
                    if variant == "disconnect-pending":
                        w.spawn("disc", w.conn.disconnect)
                        w.drain()
                    t_close = w.loop.time()
                    if cause in ("eof", "rst", "etimedout", "force"):
                        h.apply(w, cause)
                    elif cause == "garbage":
                        w.chunks.append([])
                        w.io_chunk(w.sock, b"\x7f\x7f\x7f garbage" if not noise else b"\x00\x00\x01x")
                        w.drain()
                    else:
                        from ..world import msg_id as _mid
                        from .c12 import raw_frame

                        w.chunks.append([])
                        w.io_chunk(w.sock, raw_frame(w, _mid("SensorStateResponse"), b"\xff\xff\xff"))
                        w.drain()
                    w.drain()
                    n += 1
                    d = {"harness": "c11-class", "key": key}
                    cl: dict[str, str] = {}
                    for name in ("A", "B"):
                        r = w.results.get(name)
                        if r is None:
                            res.add(key, f"C11:closed:{name} still pending after the connection closed ({cause}, {variant})", d)
                            continue
                        kind, val, t = r
                        cl[name] = type(val).__name__ if kind == "exc" else kind
                        if kind != "exc" or not isinstance(val, APIConnectionError) or isinstance(val, TimeoutAPIError):
                            res.add(key, f"C11:closed:{name} ended {w.outcome(name)} when the connection closed ({cause}, {variant}); its own "
                                    "timeout was far away and no result had arrived", d)
                        elif abs(t - t_close) > 1e-9:
                            res.add(key, f"C11:closed:{name} failed at {t}, the connection closed at {t_close}", d)
                    classes[variant] = cl
                    live = [timer_name(x) for x in w.loop.live_timers()]
                    if "handle_timeout" in live and w.conn.connection_state.name == "CLOSED":
                        res.add(key + ":timer", f"C11:leftover-timer:request timers still armed after the close ({cause}, {variant}): {live}", d)
                finally:
                    h.close(w)
            if "stop-callback-raises" in classes and classes["plain"] != classes["stop-callback-raises"]:
                key = f"class:{'noise' if noise else 'plain'}:{cause}:stop-callback-raises"
                res.add(key, f"C11:closed:with a stop callback that raises the outstanding calls end {classes['stop-callback-raises']} when the connection "
                        f"closes by {cause}; with a well-behaved one they end {classes['plain']}", {"harness": "c11-class", "key": key})
            if "disconnect-pending" in classes and classes["plain"] != classes["disconnect-pending"]:
                key = f"class:{'noise' if noise else 'plain'}:{cause}:disconnect-pending"
                res.add(key, f"C11:closed:with a graceful disconnect pending the outstanding calls end {classes['disconnect-pending']} when the connection "
                        f"closes by {cause}; without it they end {classes['plain']} - the connection's error is the same in both", {"harness": "c11-class", "key": key})
    return n


def stall_sweep(res: Result) -> int:
    """The answers are already in the socket when the loop, busy elsewhere, finally looks - after the calls' timeouts have passed.
    Arrived data is processed before timers that became due meanwhile: the calls complete with their results, nothing is left."""
    n = 0
    for noise in (False, True):
        for stall in (4.0, 6.0, 11.0, 100.0):
            # one read returns everything that arrived (the kernel does not keep segment boundaries), and every call is answered in it
            for chunks in (("DI+LS+LD",), ("LS+LD+DI",), ("LS+DI+LW+LD",)):
                key = f"stall:{'noise' if noise else 'plain'}:{stall:g}s:{'|'.join(chunks)}"
                h = ReqHarness(("noise:" if noise else "") + "AB", nd=False)
                w = h.fresh()
                try:
                    for ch in chunks:
                        atoms = ch.split("+")
                        w.chunks.append(atoms)
                        w.io_chunk(w.sock, b"".join(w.dframe(mk(MSGS[a][0], **MSGS[a][1])) for a in atoms))
                    w.loop.advance_to(w.loop.time() + stall)
                    w.drain()
                    w.run_timers(w.loop.time() + 30.0)
                    n += 1
                    v = h.verdict(w) or h.finish(w)
                    if v:
                        res.add(key, f"{v[0]} [the answers {chunks} were in the socket, the loop looked {stall:g} s later]", {"harness": "c11-stall", "key": key})
                finally:
                    h.close(w)
    return n


def burst_sweep(res: Result) -> int:
    """One read carries the answer to a call, a burst of other traffic, and one more message of the answer's type.  The caller issues
    its next call as soon as the first one completes - which is after that read has been processed, so the extra message arrived
    before the second request was written and is not its answer."""
    pb = env.pb()
    n = 0
    for noise in (False, True):
        for filler in (0, 1, 127, 128, 129, 300, 1500):
            key = f"burst:{'noise' if noise else 'plain'}:{filler}"
            w = ConnWorld(noise=noise, keepalive=1e6)
            try:
                try:
                    w.connect_fully()
                except HarnessError:
                    continue  # the plain connect sequence itself fails on this tree: the exploration below reports what is wrong
                conn = w.conn

                async def caller() -> tuple[str, str]:
                    r1 = await conn.send_message_await_response(mk("DeviceInfoRequest"), pb.DeviceInfoResponse, 10.0)
                    r2 = await conn.send_message_await_response(mk("DeviceInfoRequest"), pb.DeviceInfoResponse, 10.0)
                    return r1.name, r2.name

                w.spawn("caller", caller)
                w.drain()
                n_before = len(w.sent_frames())
                blob = w.dframe(mk("DeviceInfoResponse", name="answer-1"))
                for i in range(filler):
                    blob += w.dframe(mk("SensorStateResponse", key=i, state=1.0))
                blob += w.dframe(mk("DeviceInfoResponse", name="arrived-before-request-2"))
                w.io_chunk(w.sock, blob)
                w.drain()
                n += 1
                d = {"harness": "c11-burst", "key": key}
                if len(w.sent_frames()) != n_before + 1:
                    res.add(key, f"C11:burst: the second request was not written after the first call completed ({len(w.sent_frames()) - n_before} frames written)", d)
                    continue
                if not w.pending("caller"):
                    res.add(key, f"C11:stale-answer: the second call ended {w.results.get('caller')} with a message that had arrived before its request was written "
                                 f"({filler} messages between the answer and it, all in one read)", d)
                    continue
                w.io_chunk(w.sock, w.dframe(mk("DeviceInfoResponse", name="answer-2")))
                w.drain()
                r = w.results.get("caller")
                if r is None or r[0] != "ok" or r[1] != ("answer-1", "answer-2"):
                    res.add(key, f"C11:burst: the two calls ended {r}, expected ('answer-1', 'answer-2')", d)
            finally:
                w.close()
    return n


def run(tier: str, seed: int) -> Result:
    res = Result("C11", "model_checking")
    total = Stats()
    q = tier == "quick"
    n_class = class_sweep(res)
    n_stall = stall_sweep(res)
    n_burst = burst_sweep(res)
    from . import c12 as _c12

    n_raising = _c12.raising_subscriber_sweep(res, "C11")
    cfgs = [("", 4 if q else 5, 1 if q else 2), ("A", 3 if q else 5, 2), ("B", 3 if q else 5, 2), ("AB", 3 if q else 4, 1 if q else 2),
            ("AC", 3 if q else 4, 2), ("ABC", 3 if q else 4, 1 if q else 2), ("BD", 3 if q else 4, 1 if q else 2),
            ("B.D", 3 if q else 4, 1 if q else 2), ("debug:AB", 3 if q else 4, 1 if q else 2), ("noise:AB", 3 if q else 4, 1 if q else 2), ("recycle:AB", 3 if q else 4, 1 if q else 2),
            ("reent:", 3 if q else 4, 1 if q else 2), ("reent:A", 3 if q else 4, 1 if q else 2), ("split:AB", 3 if q else 4, 1 if q else 2)]
    budget = 240.0 if q else 2400.0
    t_end = time.monotonic() + budget
    per_cfg = []
    for i, (sd, depth, bound) in enumerate(cfgs):
        left = max(5.0, (t_end - time.monotonic()) / min(3, len(cfgs) - i))  # most configurations finish far below their share: a hungry one may take a third of what is left
        from .. import world as _world

        _world.DEFAULT_DEBUG[0] = sd.startswith("debug:")  # same exploration with debug logging requested on the connection
        sd = sd.replace("debug:", "")
        try:
            st = explore_parallel(factory, (sd,), depth=depth, bound=bound, budget_s=left, split_depth=1)
        finally:
            was_debug = _world.DEFAULT_DEBUG[0]
            _world.DEFAULT_DEBUG[0] = False
        if was_debug:
            sd = "debug:" + sd
        per_cfg.append({"outstanding_at_seed": sd, "depth": depth, "deviation_bound": bound, "executions": st.executions,
                        "states": st.states, "transitions": st.transitions, "time_capped": st.time_capped})
        for v in st.violations:
            clause = v["violated"][0]
            kind = ":".join(clause.split(":")[:3])[:70]
            res.add(f"seed={sd}:{kind}", clause, {"harness": "c11", "seed_calls": sd, "choices": v["choices"], "violated": v["violated"],
                                                  "observations": v["observations"]})
        total.merge(st)
    ends = {k[4:] for k in total.tags if k.startswith("end:")}
    need = {"ok", "TimeoutAPIError", "cancelled"}
    if not res.violations and (not need <= ends or len(ends) < 4):
        raise HarnessError(f"vacuous: endings seen {ends}")
    res.coverage = {
        "states": total.states,
        "transitions": total.transitions,
        "traces_validated_against_impl": total.executions,
        "executions": total.executions,
        "endings_observed": sorted(ends),
        "close_cause_class_runs": n_class,
        "stalled_loop_runs": n_stall,
        "burst_read_runs": n_burst,
        "raising_subscriber_runs": n_raising,
        "distinct_outcomes": len(total.outcomes),
        "configs": per_cfg,
        "exhaustive": not total.time_capped,
        "caps_hit": ["wall-clock budget"] if total.time_capped else [],
        "samples": total.samples[:3],
    }
    res.assumptions = [
        "reference waiter consumes device messages and timer expiries in the order the loop processed them (I/O before timers in a turn)",
        "a call cancelled after its stop message was received may end with its result or cancelled",
        "leftover audit reads the handler table and waiter set of the connection object (skipped if unreadable)",
    ]
    return res


def replay(rp: dict[str, Any]) -> bool:
    d = rp["detail"]
    if d.get("harness") == "c12-raising":
        from . import c12 as _c12

        r = Result("C11", "model_checking")
        _c12.raising_subscriber_sweep(r, "C11", only=d["key"])
        print(d["key"], "->", [v.clause for v in r.violations] or "holds")
        return not r.violations
    if d.get("harness") == "c11-burst":
        r = Result("C11", "model_checking")
        burst_sweep(r)
        bad = [v for v in r.violations if v.key == d["key"]]
        print(d["key"], "->", [v.clause for v in bad] or "holds")
        return not bad
    if d.get("harness") == "c11-stall":
        r = Result("C11", "model_checking")
        stall_sweep(r)
        bad = [v for v in r.violations if v.key == d["key"]]
        print(d["key"], "->", [v.clause for v in bad] or "holds")
        return not bad
    if d.get("harness") == "c11-class":
        r = Result("C11", "model_checking")
        class_sweep(r)
        bad = [v for v in r.violations if v.key.startswith(d["key"])]
        print(d["key"], "->", [v.clause for v in bad] or "holds")
        return not bad
    from .. import world as _world

    _world.DEFAULT_DEBUG[0] = str(d["seed_calls"]).startswith("debug:")
    h = factory(str(d["seed_calls"]).replace("debug:", ""))
    w = h.fresh()
    try:
        v: list[str] = []
        for lab in d["choices"]:
            h.apply(w, lab)
            v = h.verdict(w)
            if v:
                break
        else:
            v = h.finish(w)
        for line in w.log:
            print(line)
        print("violated:", v)
        return not v
    finally:
        h.close(w)
