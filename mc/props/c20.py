"""C20 - address resolution order and fallbacks; zeroconf instances are owned correctly.

(1) Resolution matrix: every address list of length 1..n over the forms {IPv4 literal, IPv6 literal, IPv6
    with numeric scope, bare name, name.local, name.local., FQDN} x per-host mDNS answer {v4, v6, both, none,
    error} x per-host OS answer {v4, v6+v4, empty, error} through the real async_resolve_host on the virtual
    loop, with fakes that record (and thereby poison) every lookup; compared with a reference resolver.
(2) Ownership: explicit-state breadth-first search over ZeroconfManager histories (set instance, get,
    resolve ok / error / cancelled, close), states deduplicated by a canonical form; the ownership
    invariants are evaluated in every state.
"""

from __future__ import annotations

import collections
import itertools
import multiprocessing as mp
import os
import socket
from typing import Any

from .. import env
from ..evidence import Result
from ..simnet import ZcLog, make_zeroconf_fakes, v4 as gai_v4, v6 as gai_v6
from ..vloop import HarnessError
from ..world import World

PORT = 6053
FORMS = {
    "v4lit": "192.168.1.{n}",
    "v6lit": "2001:db8::{n}",
    "v6scope": "fe80::{n}%3",
    "bare": "kitchen{n}",
    "local": "porch{n}.local",
    "localdot": "attic{n}.local.",
    "fqdn": "dev{n}.example.com",
}


def host_of(form: str, i: int) -> str:
    """The i-th configured address of the given form (distinct per position so that answers can be told apart)."""
    return FORMS[form].format(n=i + 1)
# names mDNS cannot carry (a label longer than 63 bytes in UTF-8): no mDNS lookup is possible, the OS resolver is asked
FORMS_UNNAMEABLE = {
    "barelong": "k" * 63 + "{n}",
    "localidn": "датчик-температуры-в-гостиной-комнате{n}.local",
}
FORMS.update(FORMS_UNNAMEABLE)
LITERAL = {"v4lit", "v6lit", "v6scope"}
LOCALISH = {"bare", "local", "localdot", "barelong", "localidn"}
MDNS = ("v4", "v6", "both", "none", "error", "v4-partial")  # v4-partial: the address records are known, the SRV/TXT answers never came (the request reports failure)
OS = ("v4", "v6v4", "empty", "error")


class ResWorld(World):
    def __init__(self) -> None:
        import aioesphomeapi.host_resolver as hr
        import aioesphomeapi.zeroconf as zmod

        super().__init__()
        self.zlog = ZcLog()
        self.zlog.now = self.loop.time
        self._hr = hr
        self._zmod = zmod
        self._saved = (zmod.Zeroconf, zmod.AsyncZeroconf, hr.AsyncServiceInfo)
        self.zc_cls, self.azc_cls, self.info_cls = make_zeroconf_fakes(self.zlog)
        zmod.Zeroconf = self.zc_cls  # type: ignore[misc]
        zmod.AsyncZeroconf = self.azc_cls  # type: ignore[misc]
        hr.AsyncServiceInfo = self.info_cls  # type: ignore[misc]

    def close(self) -> None:
        try:
            super().close()
        finally:
            self._zmod.Zeroconf, self._zmod.AsyncZeroconf, self._hr.AsyncServiceInfo = self._saved  # type: ignore[misc]


# ---------------------------------------------------------------------------------------------------
# (1) resolution matrix
# ---------------------------------------------------------------------------------------------------
def mdns_addrs(host_i: int, ans: str) -> tuple[list[str], list[str]]:
    v4s = [f"10.1.{host_i}.4", f"10.1.{host_i}.5"] if ans in ("v4", "both", "v4-partial") else []
    v6s = [f"fd00::{host_i + 1}:6", f"fd00::{host_i + 1}:7"] if ans in ("v6", "both") else []
    return v4s, v6s


def os_addrs(host_i: int, ans: str) -> list[tuple[Any, ...]]:
    if ans == "v4":
        return [gai_v4(f"10.2.{host_i}.4", PORT)]
    if ans == "v6v4":
        return [gai_v6(f"fd02::{host_i + 1}:6", PORT), gai_v4(f"10.2.{host_i}.4", PORT)]
    return []


def ref_resolve(forms: tuple[str, ...], mdns: tuple[str, ...], osans: tuple[str, ...]) -> dict[str, Any]:
    """Reference resolver: expected result tuples, expected lookups, and whether an OS error is met on the way."""
    out: list[tuple[Any, ...]] = []
    want_mdns: list[str] = []
    want_gai: list[str] = []
    os_error_at: int | None = None
    mdns_error = False
    for i, f in enumerate(forms):
        host = host_of(f, i)
        got: list[tuple[Any, ...]] = []
        if f == "v4lit":
            got = [(socket.AF_INET, host, PORT)]
        elif f == "v6lit":
            got = [(socket.AF_INET6, host, PORT, 0, 0)]
        elif f == "v6scope":
            got = [(socket.AF_INET6, host.partition("%")[0], PORT, 0, 3)]
        else:
            if f in FORMS_UNNAMEABLE:
                mdns_error = True
            elif f in LOCALISH:
                want_mdns.append(host.partition(".")[0])
                if mdns[i] == "error":
                    mdns_error = True
                else:
                    v4s, v6s = mdns_addrs(i, mdns[i])
                    got = [(socket.AF_INET6, a, PORT, 0, 0) for a in v6s] + [(socket.AF_INET, a, PORT) for a in v4s]
            if not got:
                want_gai.append(host)
                if osans[i] == "error":
                    os_error_at = i
                    break
                for fam, _t, _p, _c, sa in os_addrs(i, osans[i]):
                    got.append((fam, *sa))
        out.extend(got)
    return {"addrs": out, "mdns": want_mdns, "gai": want_gai, "os_error_at": os_error_at, "mdns_error": mdns_error}


def flat(ai: Any) -> tuple[Any, ...]:
    sa = ai.sockaddr
    if ai.family == socket.AF_INET6:
        return (ai.family, sa.address, sa.port, sa.flowinfo, sa.scope_id)
    return (ai.family, sa.address, sa.port)


def run_resolution(args: tuple[int, int, int]) -> dict[str, Any]:
    length, shard, nshards = args
    env.load()
    from aioesphomeapi.core import APIConnectionError, ResolveAPIError
    from aioesphomeapi.zeroconf import ZeroconfManager

    viol: list[tuple[str, str, Any]] = []
    seen: set[str] = set()
    n = 0
    nontrivial = 0
    w = ResWorld()
    try:
        import aioesphomeapi.host_resolver as hr

        
        combos = list(itertools.product(FORMS, repeat=length))
        for ci, forms in enumerate(combos):
            if ci % nshards != shard:
                continue
            m_axes = [("none",) if f in FORMS_UNNAMEABLE else MDNS if f in LOCALISH else ("-",) for f in forms]
            for mdns in itertools.product(*m_axes):
                o_axes = []
                for f, m in zip(forms, mdns):
                    needs_os = f == "fqdn" or (f in LOCALISH and m in ("none", "error"))
                    o_axes.append(OS if needs_os else ("-",))
                for osans in itertools.product(*o_axes):
                    ref = ref_resolve(forms, mdns, osans)
                    hosts = [host_of(f, i) for i, f in enumerate(forms)]
                    by_name = {host_of(f, i).partition(".")[0]: (i, mdns[i]) for i, f in enumerate(forms) if f in LOCALISH and f not in FORMS_UNNAMEABLE}
                    by_host = {host_of(f, i): (i, osans[i]) for i, f in enumerate(forms)}
                    w.zlog.requests.clear()
                    del w.net.gai_calls[:]

                    def script(info: Any, zc: Any, timeout: int, _by: Any = by_name) -> Any:
                        nm = info.name.partition(".")[0]
                        i, ans = _by[nm]
                        if ans == "error":
                            return OSError("mdns exploded")
                        info.v4, info.v6 = mdns_addrs(i, ans)
                        return bool(info.v4 or info.v6) and ans != "v4-partial"

                    def gai(host: str, port: int, _by: Any = by_host) -> Any:
                        if host not in _by or _by[host][1] == "-":
                            return HarnessPoison(f"getaddrinfo({host!r}) must not happen")
                        i, ans = _by[host]
                        if ans == "error":
                            return OSError(-2, "Name or service not known")
                        return os_addrs(i, ans)

                    w.zlog.request_script = script
                    w.net.gai_answer = gai
                    mgr = ZeroconfManager()
                    name = f"r{n}"
                    w.spawn(name, lambda: hr.async_resolve_host(hosts, PORT, mgr))
                    w.drain()
                    n += 1
                    r = w.results.pop(name, None)
                    w.tasks.pop(name, None)
                    d = {"hosts": hosts, "mdns": list(mdns), "os": list(osans)}
                    if any(f not in LITERAL for f in forms):
                        nontrivial += 1

                    def add(k: str, clause: str) -> None:
                        if k not in seen:
                            seen.add(k)
                            viol.append((k, clause, d))

                    shape = "+".join(forms)
                    if r is None:
                        add("resolve:hang", f"resolve of {hosts} (mDNS {mdns}, OS {osans}) did not finish")
                        continue
                    kind, val, _t = r
                    got_mdns = [nm.partition(".")[0] for nm, _ in w.zlog.requests]
                    got_gai = [h for h, _ in w.net.gai_calls]
                    if kind == "exc" and isinstance(val, HarnessPoison):
                        add(f"resolve:forbidden-lookup:{shape}", f"{hosts}: {val}")
                        continue
                    # lookups: order and nothing extra
                    if got_mdns != ref["mdns"][: len(got_mdns)] or (ref["os_error_at"] is None and got_mdns != ref["mdns"]):
                        add(f"resolve:mdns-lookups:{shape}", f"{hosts} (mDNS {mdns}, OS {osans}): mDNS lookups {got_mdns}, expected {ref['mdns']}")
                    if got_gai != ref["gai"][: len(got_gai)] or (ref["os_error_at"] is None and got_gai != ref["gai"]):
                        add(f"resolve:os-lookups:{shape}", f"{hosts} (mDNS {mdns}, OS {osans}): OS lookups {got_gai}, expected {ref['gai']}")
                    if ref["os_error_at"] is not None:
                        # an OS resolver error for one host: a connection error, or the list without that host, are both accepted
                        if kind == "exc":
                            if not isinstance(val, APIConnectionError):
                                add(f"resolve:error-class:{shape}", f"{hosts}: raised {type(val).__name__}: {val} (not a connection error)")
                        elif not val:
                            add(f"resolve:empty:{shape}", f"{hosts}: returned an empty list")
                        continue
                    if not ref["addrs"]:
                        if kind != "exc":
                            add(f"resolve:empty:{shape}", f"{hosts} (mDNS {mdns}, OS {osans}): nothing resolves but the call returned {val!r}")
                        elif not isinstance(val, APIConnectionError):
                            add(f"resolve:error-class:{shape}", f"{hosts}: nothing resolves, raised {type(val).__name__} (not a connection error)")
                        elif ref["mdns_error"] and not any(f in FORMS_UNNAMEABLE for f in forms) and not (isinstance(val, ResolveAPIError) and "mdns exploded" in str(val)):
                            add(f"resolve:mdns-error-lost:{shape}", f"{hosts}: nothing resolves after an mDNS error, but the error raised is {val!r}")
                        continue
                    if kind != "ok":
                        add(f"resolve:raised:{shape}", f"{hosts} (mDNS {mdns}, OS {osans}): raised {type(val).__name__}: {val}, expected {ref['addrs']}")
                        continue
                    got = [flat(a) for a in val]
                    if got != ref["addrs"]:
                        add(f"resolve:result:{shape}", f"{hosts} (mDNS {mdns}, OS {osans}): resolved to {got}, expected {ref['addrs']}")
                    bad = [a for a in val if a.type != socket.SOCK_STREAM or a.proto != socket.IPPROTO_TCP]
                    if bad:
                        add(f"resolve:socktype:{shape}", f"{hosts}: entries that are not TCP stream: {bad}")
                    # ownership on this path: the manager had no instance; whatever the library created is closed and dropped again
                    for inst in w.zlog.instances:
                        if inst.closed != 1:
                            add("resolve:created-instance-not-closed", f"{hosts}: zeroconf instance {inst.label} created for the lookup was closed {inst.closed} times")
                    if mgr.has_instance:
                        add("resolve:manager-keeps-instance", f"{hosts}: the manager still holds a zeroconf instance after the resolve")
                    del w.zlog.instances[:]
    finally:
        w.close()
    return {"part": f"resolve{length}.{shard}", "evals": n, "nontrivial": nontrivial, "viol": viol}


class HarnessPoison(Exception):
    """Raised by a fake lookup that must not have been called."""


# ---------------------------------------------------------------------------------------------------
# (2) ownership: explicit-state BFS over manager histories
# ---------------------------------------------------------------------------------------------------
OPS = ("ctor_none", "ctor_async", "ctor_sync", "set_async", "set_sync", "set_other", "get", "resolve_ok", "resolve_err", "resolve_cancel",
       "resolve_create_fails", "close", "close_raises", "close_cancelled", "resolve_close_raises", "resolve_close_cancelled")


class OwnWorld(ResWorld):
    def __init__(self) -> None:
        super().__init__()
        self.mgr: Any = None
        self.app_async = self.azc_cls(label="appA")
        self.app_sync = self.zc_cls("appS")
        self.app_other = self.azc_cls(label="appB")
        self.n = 0
        self.viol: list[str] = []
        self.listeners_expected = 0

    def apps(self) -> list[Any]:
        return [i for i in self.zlog.instances if i.label.startswith("app") or i.label.startswith("wrap:")]

    def libs(self) -> list[Any]:
        return [i for i in self.zlog.instances if i.label.startswith("lib")]


def own_apply(w: OwnWorld, op: str) -> None:
    import aioesphomeapi.host_resolver as hr
    from aioesphomeapi.zeroconf import ZeroconfManager

    if op.startswith("ctor"):
        arg = {"ctor_none": None, "ctor_async": w.app_async, "ctor_sync": w.app_sync}[op]
        w.mgr = ZeroconfManager(arg)
        return
    if w.mgr is None:
        raise HarnessError("no manager")
    if op.startswith("set_"):
        arg = {"set_async": w.app_async, "set_sync": w.app_sync, "set_other": w.app_other}[op]
        try:
            w.mgr.set_instance(arg)
        except RuntimeError:
            pass  # a different instance is already set: documented refusal
        return
    if op == "get":
        azc = w.mgr.get_async_zeroconf()
        azc.zeroconf.async_add_listener(object(), None)  # what the reconnect manager does with it
        return
    if op in ("close_raises", "close_cancelled"):
        # the close of a zeroconf instance fails (OS error while leaving the multicast groups) or the closing task is cancelled mid-way
        w.n += 1
        w.zlog.close_script = OSError("close failed") if op == "close_raises" else "hang"
        w.spawn(f"close{w.n}", lambda: w.mgr.async_close())
        w.drain()
        if op == "close_cancelled" and w.pending(f"close{w.n}"):
            w.cancel(f"close{w.n}")
            w.drain()
        w.zlog.close_script = None
        return
    if op == "close":
        w.n += 1
        w.spawn(f"close{w.n}", lambda: w.mgr.async_close())
        w.drain()
        # after an explicit close nothing the library created may be open, and the manager holds nothing it created
        for i in w.libs():
            if not i.closed:
                w.viol.append(f"C20:own:lib-open-after-close: {i.label} created by the library is still open after async_close()")
        return
    # resolves
    w.n += 1
    name = f"res{w.n}"
    libs_before = {id(i) for i in w.libs()}
    had = w.mgr.has_instance
    pending: list[Any] = []
    w.zlog.create_error = None

    def script(info: Any, zc: Any, timeout: int) -> Any:
        if op == "resolve_err":
            return OSError("mdns exploded")
        if op == "resolve_cancel":
            fut = w.loop.create_future()
            pending.append(fut)
            return fut
        info.v4 = ["10.9.9.9"]
        return True

    w.zlog.request_script = script
    w.net.gai_answer = lambda host, port: [gai_v4("10.8.8.8", PORT)]
    if op == "resolve_create_fails":
        w.zlog.create_error = OSError("no multicast")
    if op in ("resolve_close_raises", "resolve_close_cancelled"):
        w.zlog.close_script = OSError("close failed") if op == "resolve_close_raises" else "hang"
    w.spawn(name, lambda: hr.async_resolve_host(["porch1.local"], PORT, w.mgr))
    w.drain()
    if op in ("resolve_cancel", "resolve_close_cancelled") and w.pending(name):
        w.cancel(name)
        w.drain()
    w.zlog.create_error = None
    w.zlog.close_script = None
    if w.pending(name):
        w.viol.append(f"C20:own:resolve-hang: {op} did not finish")
    r = w.results.get(name)
    if r is not None and r[0] == "ok" and not r[1]:
        w.viol.append(f"C20:own:empty-result: {op} returned an empty list")
    # an instance created for this lookup is closed again by the time the lookup is over, exactly once, and dropped
    for i in w.libs():
        if id(i) in libs_before or op in ("resolve_close_raises", "resolve_close_cancelled"):
            continue  # a close that failed or was cancelled cannot be held against the library
        if i.closed != 1:
            w.viol.append(f"C20:own:lookup-instance: {i.label} was created for the lookup ({op}) and closed {i.closed} times by its end")
        if getattr(w.mgr, "_aiozc", None) is i:
            w.viol.append(f"C20:own:lookup-instance-kept: the manager still holds {i.label} after the lookup ({op})")
    if had and not w.mgr.has_instance:
        w.viol.append(f"C20:own:instance-dropped: the manager had an instance before the lookup ({op}) and has none afterwards")


def own_invariants(w: OwnWorld) -> list[str]:
    v = list(w.viol)
    for i in w.apps():
        if i.closed or i.zeroconf.closed:
            v.append(f"C20:own:supplied-closed: the application's zeroconf instance {i.label} was closed by the library")
    if w.app_sync.closed:
        v.append("C20:own:supplied-closed: the application's synchronous zeroconf instance was closed by the library")
    for i in w.libs():
        if i.closed > 1:
            v.append(f"C20:own:double-close: {i.label} was closed {i.closed} times")
    return v


def own_canon(w: OwnWorld) -> Any:
    m = w.mgr
    if m is None:
        return ("nomgr",)
    held = getattr(m, "_aiozc", None)
    held_c = None if held is None else (held.label.rstrip("0123456789"), held.closed, len(held.zeroconf.listeners))
    # every attribute the manager object has (whatever a future version keeps there - counters, flags, caches): primitive values as
    # they are, containers by size, other objects by type; the held instance in the canonical form above
    names: set[str] = set(getattr(m, "__dict__", {}))
    for c in type(m).__mro__:
        sl = getattr(c, "__slots__", ())
        names.update([sl] if isinstance(sl, str) else sl)
    extra = []
    for nm in sorted(names):
        try:
            v = getattr(m, nm)
        except AttributeError:
            continue
        if v is held:
            continue
        if isinstance(v, (bool, int, float, str, type(None))):
            extra.append((nm, v))
        elif isinstance(v, (list, tuple, set, frozenset, dict)):
            extra.append((nm, type(v).__name__, len(v)))
        else:
            extra.append((nm, type(v).__name__))
    return (
        tuple(extra),
        bool(getattr(m, "_created", None)), held_c,
        tuple(sorted((i.label.rstrip("0123456789"), i.closed, len(i.zeroconf.listeners)) for i in w.zlog.instances if not i.closed or i is held)),
        w.app_sync.closed, len(w.app_sync.listeners),
    )


def own_build(hist: tuple[str, ...]) -> OwnWorld:
    w = OwnWorld()
    try:
        for op in hist:
            own_apply(w, op)
    except BaseException:
        w.close()
        raise
    return w


def run_ownership(depth: int) -> dict[str, Any]:
    env.load()
    viol: list[tuple[str, str, Any]] = []
    seen_keys: set[str] = set()
    seen: set[Any] = set()
    frontier: collections.deque[tuple[str, ...]] = collections.deque()
    transitions = 0
    for c in ("ctor_none", "ctor_async", "ctor_sync"):
        frontier.append((c,))
    states = 0
    max_depth = 0
    while frontier:
        hist = frontier.popleft()
        w = own_build(hist)
        try:
            transitions += 1
            bad = own_invariants(w)
            k = own_canon(w)
        finally:
            w.close()
        if bad:
            key = ":".join(bad[0].split(":")[:3])
            if key not in seen_keys:
                seen_keys.add(key)
                viol.append((key, f"history {list(hist)}: {bad[0]}", {"history": list(hist), "violated": bad}))
            continue
        if k in seen:
            continue
        seen.add(k)
        states += 1
        max_depth = max(max_depth, len(hist))
        if len(hist) >= depth:
            continue
        for op in OPS:
            if op.startswith("ctor"):
                continue
            frontier.append(hist + (op,))
    return {"part": "ownership", "evals": transitions, "nontrivial": transitions, "viol": viol, "states": states, "max_depth": max_depth}


def run_connect_level() -> dict[str, Any]:
    """'Used verbatim' down to the socket: what the start phase hands to connect() for literal and resolved addresses."""
    env.load()
    from ..world import ConnWorld

    viol: list[tuple[str, str, Any]] = []
    n = 0
    cases: list[tuple[str, tuple[str, ...], Any, list[tuple[Any, ...]]]] = [
        ("v4-literal", ("192.168.7.9",), None, [("192.168.7.9", PORT)]),
        ("v6-literal", ("2001:db8::9",), None, [("2001:db8::9", PORT, 0, 0)]),
        ("v6-scoped-literal", ("fe80::9%3",), None, [("fe80::9", PORT, 0, 3)]),
        ("v6-scoped-literal-large-scope", ("fe80::a%4294967295",), None, [("fe80::a", PORT, 0, 4294967295)]),
        ("os-resolved-v6-flow-scope", ("dev9.example.com",), [(socket.AF_INET6, socket.SOCK_STREAM, socket.IPPROTO_TCP, "", ("fd09::1", PORT, 7, 5))],
         [("fd09::1", PORT, 7, 5)]),
        ("two-literals-in-order", ("fe80::b%2", "10.9.8.7"), None, [("fe80::b", PORT, 0, 2), ("10.9.8.7", PORT)]),
    ]
    for label, hosts, gai, want in cases:
        w = ConnWorld(addresses=hosts)
        try:
            if gai is not None:
                w.net.gai_answer = lambda host, port, _g=gai: _g
            w.do_start()
            # refuse every attempt so that happy-eyeballs walks through the whole list in order
            for _ in range(len(want) + 1):
                for s_ in w.net.connecting():
                    w.io_connect(s_, 111)
                w.drain()
                w.run_timers(w.loop.time() + 1.0)
            got = [tuple(s_.connect_called) for s_ in w.net.sockets if s_.connect_called is not None]
            n += 1
            if got != want:
                viol.append((f"connect:{label}", f"addresses {list(hosts)}: connect() was called with {got}, expected {want}", {"hosts": list(hosts)}))
            if gai is None and w.net.gai_calls:
                viol.append((f"connect:{label}:lookup", f"addresses {list(hosts)} are literals but the OS resolver was asked {w.net.gai_calls}", {"hosts": list(hosts)}))
        finally:
            w.close()
    # lookups that never answer: the start phase gives up after its resolve time-out with a connection error, and the socket step is
    # never handed an empty address list (observed where the resolver's result is consumed)
    from aioesphomeapi.connection import APIConnection, ConnectionParams
    from aioesphomeapi.core import APIConnectionError
    from aioesphomeapi.zeroconf import ZeroconfManager

    for label, hosts in (("fqdn", ("dev9.example.com",)), ("local", ("porch9.local",)), ("bare", ("kitchen9",)),
                         ("local+fqdn", ("porch9.local", "dev9.example.com")), ("two-fqdn", ("a9.example.com", "b9.example.com"))):
        w2 = ResWorld()
        orig = APIConnection.__dict__.get("_connect_socket_connect")
        handed: list[Any] = []
        try:
            if orig is not None:
                async def spy(conn_: Any, addrs: Any, _o: Any = orig) -> Any:
                    handed.append(list(addrs))
                    return await _o(conn_, addrs)

                APIConnection._connect_socket_connect = spy  # type: ignore[method-assign]
            w2.zlog.request_script = lambda info, zc, timeout: w2.loop.create_future()  # mDNS never answers
            w2.net.gai_answer = None  # the OS resolver never answers
            params = ConnectionParams(addresses=list(hosts), port=PORT, password=None, client_info="mc", keepalive=20.0,
                                      zeroconf_manager=ZeroconfManager(), noise_psk=None, expected_name=None)
            conn = APIConnection(params, None, False, None)
            w2.spawn("start", conn.start_connection)
            w2.drain()
            t0 = w2.loop.time()
            w2.run_timers(t0 + 400.0)
            n += 1
            r = w2.results.get("start")
            d = {"hosts": list(hosts), "lookups": "hang"}
            if r is None:
                viol.append((f"connect:hang:{label}:never-ends", f"addresses {list(hosts)} whose lookups never answer: start_connection still pending after 400 s", d))
            elif r[0] == "ok":
                viol.append((f"connect:hang:{label}:succeeds", f"addresses {list(hosts)} whose lookups never answer: start_connection succeeded", d))
            elif not isinstance(r[1], APIConnectionError):
                viol.append((f"connect:hang:{label}:class", f"addresses {list(hosts)} whose lookups never answer: start_connection raised {type(r[1]).__name__}", d))
            if any(not a for a in handed):
                viol.append((f"connect:hang:{label}:empty-result", f"addresses {list(hosts)} whose lookups never answer: the resolve step returned an empty address "
                             f"list to the socket step instead of raising", d))
            if w2.net.sockets:
                viol.append((f"connect:hang:{label}:socket", f"addresses {list(hosts)} whose lookups never answer: a socket was opened", d))
        finally:
            if orig is not None:
                APIConnection._connect_socket_connect = orig  # type: ignore[method-assign]
            w2.close()
    return {"part": "connect-level", "evals": n, "nontrivial": n, "viol": viol}


def _job(j: tuple[Any, ...]) -> dict[str, Any]:
    if j[0] == "conn":
        return run_connect_level()
    if j[0] == "own":
        return run_ownership(j[1])
    return run_resolution(j[1:])


def run(tier: str, seed: int) -> Result:
    env.load()
    res = Result("C20", "model_checking")
    q = tier == "quick"
    jobs: list[tuple[Any, ...]] = [("own", 6 if q else 8), ("conn",)]
    jobs += [("res", 1, 0, 1)]
    jobs += [("res", 2, s, 4) for s in range(4)]
    jobs += [("res", 3, s, 14) for s in range(14)]
    if not q:
        jobs += [("res", 4, s, 32) for s in range(32)]
    ctx = mp.get_context("fork")
    with ctx.Pool(min(16, len(jobs), os.cpu_count() or 1)) as pool:
        results = pool.map(_job, jobs, chunksize=1)
    total = 0
    nontrivial = 0
    own: dict[str, Any] = {}
    for r in results:
        total += r["evals"]
        nontrivial += r["nontrivial"]
        if r["part"] == "ownership":
            own = r
        for k, clause, detail in r["viol"]:
            res.add(k, clause, detail)
    resolves = total - own.get("evals", 0)
    if not res.violations and (resolves < 1000 or own.get("states", 0) < 10):
        raise HarnessError(f"vacuous: resolves={resolves} ownership states={own.get('states')}")
    res.coverage = {
        "states": own.get("states", 0),
        "transitions": own.get("evals", 0),
        "traces_validated_against_impl": total,
        "ownership_history_depth": own.get("max_depth", 0),
        "ownership_operations": list(OPS),
        "resolutions_executed": resolves,
        "resolution_list_lengths": [1, 2, 3] if q else [1, 2, 3, 4],
        "address_forms": FORMS,
        "evaluations": total,
        "distinct_nontrivial": nontrivial,
        "exhaustive": True,
        "samples": [{"job": list(map(str, j))} for j in jobs[:3]],
    }
    res.assumptions = [
        "mDNS and OS lookups are observed on fakes with the call surface of AsyncServiceInfo / loop.getaddrinfo; a lookup that must not happen fails the run",
        "an OS resolver error for one host of a list may either fail the whole resolve with a connection error or be skipped; if nothing resolves "
        "an error must be raised, and it must be the mDNS error when there was one and the OS resolver answered nothing",
        "ownership states are deduplicated by (created flag, held instance kind/closed/listeners, open instances, supplied sync instance state); "
        "the invariants are evaluated before deduplication, on every history",
    ]
    return res


def replay(rp: dict[str, Any]) -> bool:
    d = rp.get("detail") or {}
    if "history" in d:
        w = own_build(tuple(d["history"]))
        try:
            v = own_invariants(w)
        finally:
            w.close()
        print(d["history"], "->", v or "holds")
        return not v
    r = run("quick", 0)
    bad = [v for v in r.violations if v.key == rp["key"]]
    print(rp["key"], "->", "still violated" if bad else "holds")
    return not bad
