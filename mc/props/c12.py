"""C12 - dispatch exactly once in order; unknown types ignored; peer requests answered.

(a) id/payload sweep through a connected session with a probe subscribed to every registered class (plaintext: every id
    0..65535 plus large varints; Noise: every id 0..65535);
(b) all subscribe/unsubscribe/dispatch histories up to a depth over three handlers with re-entrant bodies, against snapshot semantics;
(c) all sequences of <=3 peer requests / traffic frames: the matching response is written, disconnect: response first then closed.
"""

from __future__ import annotations

import itertools
import multiprocessing as mp
import os
from typing import Any

from .. import env, fingerprint, pbgen, wire
from ..evidence import Result
from ..vloop import HarnessError
from ..world import FIXED_EPOCH, ConnWorld, mk, msg_id


# ------------------------------------------------------------------------------------------------------------
# (a) ids and payloads
# ------------------------------------------------------------------------------------------------------------
class Probe:
    def __init__(self) -> None:
        self.calls: list[Any] = []

    def __call__(self, msg: Any) -> None:
        self.calls.append(msg)


def connected(noise: bool) -> tuple[ConnWorld, Probe]:
    from aioesphomeapi.core import MESSAGE_TYPE_TO_PROTO

    w = ConnWorld(noise=noise)
    w.connect_fully()
    p = Probe()
    w.conn.add_message_callback(p, tuple(MESSAGE_TYPE_TO_PROTO.values()))
    return w, p


def raw_frame(w: ConnWorld, typ: int, payload: bytes) -> bytes:
    if not w.noise:
        return wire.encode_frame(typ, payload)
    assert w.ndev is not None
    return w.ndev.data_frame(typ, payload)


def conn_fp(w: ConnWorld) -> Any:
    c = fingerprint.Canon(w.loop)
    # the frame helper's read cursor is scratch state of the framing layer (C01's subject), not connection state
    return (c.obj(w.conn, skip=("_frame_helper",)), fingerprint.loop_canon(w.loop), len(w.sock.sent), w.conn.connection_state.name, len(w.stops))  # type: ignore[union-attr]


def sweep_job(args: tuple[Any, ...]) -> dict[str, Any]:
    env.load()
    noise, lo, hi = args[:3]
    from .. import world as _world

    _world.DEFAULT_DEBUG[0] = len(args) > 3 and bool(args[3])
    ids = env.proto_ids()
    pb = env.pb()
    out: dict[str, Any] = {"evals": 0, "viol": [], "defined_ok": 0, "undefined_ok": 0, "bad_payload_closed": 0}
    sample_valid = pbgen.populate(getattr(pb, "SensorStateResponse")(), 1).SerializeToString()
    junk = b"\xff\xff\xff\xff\x07junk"
    payloads = {"empty": b"", "valid-of-some-message": sample_valid, "truncated": sample_valid[: len(sample_valid) // 2], "junk": junk}

    def fail(key: str, clause: str, **kw: Any) -> None:
        out["viol"].append({"key": key, "clause": clause, **kw})

    w, probe = connected(noise)
    try:
        undefined = [i for i in range(lo, hi) if i not in ids]
        # undefined ids: one shared session; full fingerprint equality around batches, bisected on a mismatch
        def deliver_undefined(batch: list[tuple[int, str]]) -> bool:
            before = conn_fp(w)
            n_probe = len(probe.calls)
            for i, pname in batch:
                w.io_chunk(w.sock, raw_frame(w, i, payloads[pname]))
                w.drain()
                out["evals"] += 1
            return conn_fp(w) == before and len(probe.calls) == n_probe and not w.loop.errors

        work = [(i, pn) for i in undefined for pn in payloads]
        B = 128
        for k in range(0, len(work), B):
            batch = work[k : k + B]
            if deliver_undefined(batch):
                out["undefined_ok"] += len(batch)
                continue
            # find the culprit on fresh sessions
            for i, pn in batch:
                w2, p2 = connected(noise)
                try:
                    before = conn_fp(w2)
                    w2.io_chunk(w2.sock, raw_frame(w2, i, payloads[pn]))
                    w2.drain()
                    after = conn_fp(w2)
                    if p2.calls:
                        fail(f"undefined:{i}:delivered", f"frame with undefined type {i} ({pn} payload) was delivered to a subscriber as {type(p2.calls[0]).__name__}",
                             noise=noise, type=i, payload=pn)
                    elif after != before or w2.loop.errors:
                        what = "closed the connection" if w2.conn.connection_state.name == "CLOSED" else "changed the connection's state"
                        fail(f"undefined:{i}:effect", f"frame with undefined type {i} ({pn} payload) {what}", noise=noise, type=i, payload=pn)
                finally:
                    w2.close()
            w.close()
            w, probe = connected(noise)
        # the shared session must still be usable
        if undefined:
            n = len(probe.calls)
            w.io_chunk(w.sock, w.dframe(mk("SensorStateResponse", key=9)))
            w.drain()
            if len(probe.calls) != n + 1:
                fail(f"undefined:{lo}-{hi}:unusable", "connection no longer delivers messages after the undefined-type frames", noise=noise)
        # defined ids
        for i in range(lo, hi):
            if i not in ids:
                continue
            klass = getattr(pb, ids[i])
            populated = pbgen.populate(klass(), i).SerializeToString()
            cases = dict(payloads)
            cases["own-populated"] = populated
            for pn, pl in cases.items():
                try:
                    exp = klass()
                    exp.MergeFromString(pl)
                    decodable = True
                except Exception:  # noqa: BLE001
                    decodable = False
                if ids[i] in ("DisconnectRequest", "PingRequest", "GetTimeRequest", "DisconnectResponse", "HelloResponse", "ConnectResponse") or not decodable:
                    w2, p2 = connected(noise)
                    fresh = True
                else:
                    w2, p2 = w, probe
                    fresh = False
                try:
                    n = len(p2.calls)
                    w2.io_chunk(w2.sock, raw_frame(w2, i, pl) + (w2.dframe(mk("SensorStateResponse", key=77)) if decodable and fresh and ids[i] != "DisconnectRequest" else b""))
                    w2.drain()
                    out["evals"] += 1
                    got = p2.calls[n:]
                    if decodable:
                        want = [exp] + ([mk("SensorStateResponse", key=77)] if fresh and ids[i] != "DisconnectRequest" else [])
                        if [(type(m).__name__, m.SerializeToString()) for m in got] != [(type(m).__name__, m.SerializeToString()) for m in want]:
                            fail(f"defined:{i}:{pn}", f"type {i} ({ids[i]}, {pn} payload): subscribers got {[type(m).__name__ for m in got]}, expected exactly "
                                 f"{[type(m).__name__ for m in want]} with equal content", noise=noise, type=i, payload=pn)
                        else:
                            out["defined_ok"] += 1
                    else:
                        if got:
                            fail(f"defined:{i}:{pn}:delivered", f"type {i} ({ids[i]}) with undecodable payload was delivered", noise=noise, type=i, payload=pn)
                        elif w2.conn.connection_state.name != "CLOSED":
                            fail(f"defined:{i}:{pn}:open", f"type {i} ({ids[i]}) with undecodable payload did not close the connection", noise=noise, type=i, payload=pn)
                        else:
                            fe = getattr(w2.conn, "_fatal_exception", None)
                            if fe is not None and type(fe).__name__ != "ProtocolAPIError":
                                fail(f"defined:{i}:{pn}:class", f"undecodable payload closed the connection with {type(fe).__name__}, not a protocol error",
                                     noise=noise, type=i, payload=pn)
                            else:
                                out["bad_payload_closed"] += 1
                finally:
                    if fresh:
                        w2.close()
    finally:
        w.close()
    return out


# ------------------------------------------------------------------------------------------------------------
# (b) subscribe / unsubscribe / dispatch histories
# ------------------------------------------------------------------------------------------------------------
BODIES = ("plain", "unsub_self", "unsub_next", "sub_next", "unsub_resub_self")
OPS = ("sub0", "sub1", "sub2", "unsub0", "unsub1", "unsub2", "deliverT", "deliverU")


class HistWorld:
    """One connected connection reused for many histories (handlers are removed between histories)."""

    def __init__(self) -> None:
        self.w = ConnWorld()
        self.w.connect_fully()
        pb = env.pb()
        self.T = getattr(pb, "DeviceInfoResponse")
        self.U = getattr(pb, "SensorStateResponse")
        self.tid = msg_id("DeviceInfoResponse")
        self.uid = msg_id("SensorStateResponse")

    def run(self, bodies: tuple[str, str, str], hist: tuple[str, ...]) -> str | None:
        conn = self.w.conn
        removers: dict[int, Any] = {}
        ref: dict[int, set[str]] = {0: set(), 1: set(), 2: set()}  # handler -> types it is registered for
        calls: list[tuple[int, str]] = []
        types_of = {0: (self.T,), 1: (self.T,), 2: (self.T, self.U)}  # handler 2 registers for two types in one call

        def tnames(i: int) -> set[str]:
            return {t.__name__ for t in types_of[i]}

        def do_sub(i: int) -> None:
            if ref[i]:
                return
            removers[i] = conn.add_message_callback(handlers[i], types_of[i])
            ref[i] = tnames(i)

        stale: dict[int, Any] = {}

        def do_unsub(i: int) -> None:
            r = removers.pop(i, None)
            if r is None:
                r = stale.get(i)  # an unsubscribe function called a second time: nothing is registered under it any more
            if r is not None:
                r()
                stale[i] = r
            ref[i] = set()

        def make(i: int) -> Any:
            body = bodies[i]
            nxt = (i + 1) % 3

            def handler(msg: Any) -> None:
                calls.append((i, type(msg).__name__))
                if body == "unsub_self":
                    do_unsub(i)
                elif body == "unsub_next":
                    do_unsub(nxt)
                elif body == "sub_next":
                    do_sub(nxt)
                elif body == "unsub_resub_self":
                    do_unsub(i)
                    do_sub(i)

            return handler

        handlers = [make(0), make(1), make(2)]
        try:
            for step, op in enumerate(hist):
                if op.startswith("sub"):
                    do_sub(int(op[3]))
                elif op.startswith("unsub"):
                    do_unsub(int(op[5]))
                else:
                    tname = "DeviceInfoResponse" if op == "deliverT" else "SensorStateResponse"
                    snapshot = sorted(i for i in ref if tname in ref[i])
                    n = len(calls)
                    try:
                        conn.process_packet(self.tid if op == "deliverT" else self.uid, b"")
                    except Exception as e:  # noqa: BLE001
                        return f"step {step} ({op}): dispatch raised {type(e).__name__}: {e}"
                    got = calls[n:]
                    if sorted(i for i, _ in got) != snapshot or any(t != tname for _, t in got):
                        return (f"step {step} ({op}): handlers called {sorted(got)}; registered when the dispatch started: {snapshot}")
                    if conn.connection_state.name != "CONNECTED":
                        return f"step {step} ({op}): connection left CONNECTED"
            return None
        finally:
            for i in list(removers):
                do_unsub(i)


def hist_job(args: tuple[int, int, int]) -> dict[str, Any]:
    env.load()
    depth, part, parts = args
    hw = HistWorld()
    out: dict[str, Any] = {"evals": 0, "viol": [], "dispatches": 0}
    try:
        all_bodies = list(itertools.product(BODIES, repeat=3))
        for bi, bodies in enumerate(all_bodies):
            if bi % parts != part:
                continue
            for d in range(1, depth + 1):
                for hist in itertools.product(OPS, repeat=d):
                    if not hist[-1].startswith("deliver"):
                        continue  # only histories ending in a dispatch observe anything new
                    out["evals"] += 1
                    out["dispatches"] += sum(1 for x in hist if x.startswith("deliver"))
                    v = hw.run(bodies, hist)
                    if v:
                        out["viol"].append({"key": f"history:{bodies}:{hist}", "clause": "C12:history:" + v, "bodies": list(bodies), "history": list(hist)})
                        if len(out["viol"]) > 3:
                            return out
    finally:
        hw.w.close()
    return out


def bad_payload_states_job(noise: bool) -> dict[str, Any]:
    """'An undecodable payload of a known type closes the connection with a protocol error' - in every state a session can be in,
    including a graceful disconnect that is pending or has already given up waiting for the connect phase."""
    env.load()
    from aioesphomeapi.core import ProtocolAPIError

    out: dict[str, Any] = {"evals": 0, "viol": []}
    bad_id = msg_id("SensorStateResponse")
    for state in ("connected", "disconnect-pending", "finish-pending", "finish-pending+disconnect", "finish-pending+disconnect-gave-up"):
        for lead in ("", "hello", "state"):
            if lead == "hello" and not state.startswith("finish-pending"):
                continue
            if lead == "state" and state.startswith("finish-pending"):
                continue
            w = ConnWorld(noise=noise, login=True, keepalive=1e6)
            try:
                w.do_start()
                w.do_tcp_ok()
                w.do_finish_call()
                w.do_handshake()
                if not state.startswith("finish-pending"):
                    w.do_hello()
                if not state.startswith("finish-pending"):
                    # a request that is waiting when the bad payload arrives learns why the connection closed
                    w.spawn("req", lambda: w.conn.send_message_await_response(mk("DeviceInfoRequest"), env.pb().DeviceInfoResponse, 50.0))
                    w.drain()
                if "disconnect" in state:
                    w.spawn("disc", w.conn.disconnect)
                    w.drain()
                if state.endswith("gave-up"):
                    w.advance_next_timer()  # disconnect() stops waiting for the connect phase (5 s) and asks the device to disconnect
                    w.drain()
                    if w.conn.connection_state.name == "CLOSED":
                        continue
                fatal: list[Any] = []
                orig = w.conn.report_fatal_error

                def spy(err: Any, _o: Any = orig, _f: list[Any] = fatal) -> None:
                    _f.append(err)
                    _o(err)

                try:
                    w.conn.report_fatal_error = spy  # type: ignore[method-assign]
                except AttributeError:
                    pass
                data = b""
                if lead == "hello":
                    data += w.dframe(w.hello_resp()) + w.dframe(w.connect_resp())
                elif lead == "state":
                    data += w.dframe(mk("SensorStateResponse", key=1, state=1.0))
                data += raw_frame(w, bad_id, b"\xff\xff\xff")
                w.io_chunk(w.sock, data)
                w.drain()
                out["evals"] += 1
                key = f"bad-payload:{'noise' if noise else 'plain'}:{state}:{lead or 'alone'}"
                d = {"noise": noise, "state": state, "lead": lead}
                if w.conn.connection_state.name != "CLOSED":
                    out["viol"].append({"key": key, "clause": f"C12:bad-payload:an undecodable SensorStateResponse arrived in state '{state}' (after: {lead or 'nothing'}) "
                                        f"but the connection reads {w.conn.connection_state.name}, finish={w.outcome('finish')}", **d})
                elif "req" in w.tasks and not (w.results.get("req") and w.results["req"][0] == "exc" and isinstance(w.results["req"][1], ProtocolAPIError)):
                    out["viol"].append({"key": key + ":waiter", "clause": f"C12:bad-payload:closed with a protocol error, but the request that was waiting in state "
                                        f"'{state}' ended {w.outcome('req')}", **d})
                elif fatal and not any(isinstance(e, ProtocolAPIError) for e in fatal[:1]) and not state.endswith("gave-up"):
                    out["viol"].append({"key": key + ":class", "clause": f"C12:bad-payload:closed, but the fatal error reported first is {type(fatal[0]).__name__}, "
                                        "not a protocol error", **d})
            finally:
                w.close()
    return out


def keepalive_states_job(noise: bool) -> dict[str, Any]:
    """Dispatch while the keepalive machinery is busy: idle / ping outstanding / ping answered earlier.  Every known message is delivered
    exactly once whatever the keepalive state; an undefined-type frame has no effect on it either (it is not a sign of life)."""
    env.load()
    from aioesphomeapi.core import MESSAGE_TYPE_TO_PROTO

    K = 10.0
    out: dict[str, Any] = {"evals": 0, "viol": []}
    ping_id = msg_id("PingRequest")

    def pings(w: ConnWorld) -> int:
        return sum(1 for n in w.sent_names() if n == "PingRequest")

    stimuli = (("ST",), ("UK",), ("UK", "ST"), ("PRESP", "ST"), ("ST", "ST"), ("UK", "UK"), ("TX", "PRESP"))
    for state in ("idle", "ping-outstanding", "answered-then-idle", "second-ping-outstanding"):
        for stim in stimuli:
            for one_chunk in (False, True):
                w = ConnWorld(noise=noise, keepalive=K)
                try:
                    if noise:
                        w.connect_fully_split()
                    else:
                        w.connect_fully()
                    t0 = w.loop.time()
                    p = Probe()
                    w.conn.add_message_callback(p, tuple(MESSAGE_TYPE_TO_PROTO.values()))
                    exp_pings: list[float] = []
                    if state != "idle":
                        w.loop.advance_to(t0 + K)
                        w.drain()
                        exp_pings.append(round(t0 + K, 6))
                    if state in ("answered-then-idle", "second-ping-outstanding"):
                        w.io_chunk(w.sock, w.dframe(mk("PingResponse")))
                        w.drain()
                        w.loop.advance_to(t0 + 2 * K)  # a message arrived during this interval: no ping at this tick
                        w.drain()
                    if state == "second-ping-outstanding":
                        w.loop.advance_to(t0 + 3 * K)
                        w.drain()
                        exp_pings.append(round(t0 + 3 * K, 6))
                    del p.calls[:]
                    now = w.loop.time()
                    w.loop.advance_to(now + 1.0)
                    frames = []
                    exp = []
                    for i, a in enumerate(stim):
                        if a == "UK":
                            frames.append(raw_frame(w, 9999, b"zz"))
                            continue
                        m = {"ST": lambda: mk("SensorStateResponse", key=40 + i, state=1.5), "PRESP": lambda: mk("PingResponse"),
                             "TX": lambda: mk("TextSensorStateResponse", key=41 + i, state="t")}[a]()
                        frames.append(w.dframe(m))
                        exp.append((type(m).__name__, m.SerializeToString()))
                    for chunk in ([b"".join(frames)] if one_chunk else frames):
                        w.io_chunk(w.sock, chunk)
                        w.drain()
                    out["evals"] += 1
                    key = f"keepalive:{'noise' if noise else 'plain'}:{state}:{'+'.join(stim)}:{'one-chunk' if one_chunk else 'separate'}"
                    d = {"noise": noise, "state": state, "stimuli": list(stim), "one_chunk": one_chunk}
                    got = [(type(m).__name__, m.SerializeToString()) for m in p.calls]
                    if got != exp:
                        out["viol"].append({"key": key, "clause": f"C12:delivery:keepalive state '{state}': device sent {list(stim)}, subscribers got "
                                            f"{[g[0] for g in got]}, expected {[e[0] for e in exp]}", **d})
                        continue
                    # afterwards: what the keepalive machinery does must depend on the known messages only
                    life = any(a != "UK" for a in stim)
                    outstanding = state in ("ping-outstanding", "second-ping-outstanding")
                    if not outstanding and not life and state == "idle":
                        n0 = pings(w)
                        w.run_timers(t0 + K + 1e-3)
                        if pings(w) - n0 != 1:
                            out["viol"].append({"key": key + ":effect", "clause": "C12:undefined-effect:only undefined-type frames arrived during the first "
                                                f"keepalive interval, so a ping is due at its end; {pings(w) - n0} pings were written", **d})
                    closed_at = None
                    while closed_at is None:
                        nt = w.loop.next_timer_at()
                        if nt is None or nt > t0 + 12 * K:
                            break
                        w.loop.advance_to(max(nt, w.loop.time()))
                        w.drain()
                        if w.conn.connection_state.name == "CLOSED":
                            closed_at = w.loop.time()
                    if outstanding and not life:
                        due = exp_pings[-1] + 4.5 * K
                        if closed_at is None or abs(closed_at - due) > 1e-6:
                            out["viol"].append({"key": key + ":effect", "clause": f"C12:undefined-effect:only undefined-type frames arrived after the ping at "
                                                f"{exp_pings[-1] - t0:g}: the connection must be declared dead at {due - t0:g}, "
                                                f"{'it is still open at ' + format(12 * K, 'g') if closed_at is None else 'it was at ' + format(closed_at - t0, 'g')}", **d})
                finally:
                    w.close()
    return out


def fresh_hist_job(args: tuple[int, int, int]) -> dict[str, Any]:
    """Short histories on a *fresh* connection each (the first registration of a type creates state a reused connection never shows again)."""
    env.load()
    depth, part, parts = args
    out: dict[str, Any] = {"evals": 0, "viol": [], "dispatches": 0}
    all_bodies = list(itertools.product(BODIES, repeat=3))
    for bi, bodies in enumerate(all_bodies):
        if bi % parts != part:
            continue
        for d in range(2, depth + 1):
            for hist in itertools.product(OPS, repeat=d):
                if not hist[-1].startswith("deliver") or not any(h.startswith("sub") for h in hist):
                    continue
                hw = HistWorld()
                try:
                    out["evals"] += 1
                    out["dispatches"] += sum(1 for x in hist if x.startswith("deliver"))
                    v = hw.run(bodies, hist)
                finally:
                    hw.w.close()
                if v:
                    out["viol"].append({"key": f"fresh-history:{bodies}:{hist}", "clause": "C12:history:(fresh connection) " + v, "bodies": list(bodies), "history": list(hist)})
                    if len(out["viol"]) > 3:
                        return out
    return out


# ------------------------------------------------------------------------------------------------------------
# (c) peer requests
# ------------------------------------------------------------------------------------------------------------
def peer_connect_job(args: tuple[bool, bool, tuple[str, ...], bool]) -> dict[str, Any]:
    """Peer requests that arrive while the hello/login exchange is still running (after finish_connection wrote its hello)."""
    env.load()
    noise, login, seq, one_chunk = args
    out: dict[str, Any] = {"evals": 1, "viol": []}
    w = ConnWorld(noise=noise, login=login)
    try:
        w.do_start()
        w.do_tcp_ok()
        w.do_finish_call()
        w.do_handshake()
        n0 = len(w.sent_frames())
        frames = []
        for a in seq:
            if a == "HELLO":
                frames.append(w.dframe(w.hello_resp()))
            elif a == "CONN":
                frames.append(w.dframe(w.connect_resp()))
            else:
                frames.append(w.dframe(mk(PEER[a])))  # type: ignore[arg-type]
        if one_chunk:
            w.io_chunk(w.sock, b"".join(frames))
            w.drain()
        else:
            for f in frames:
                if w.sock is None or w.sock.closed:
                    break
                w.io_chunk(w.sock, f)
                w.drain()
        exp: list[str] = []
        for a in seq:
            if a in ANSWER:
                exp.append(ANSWER[a])
            if a == "DR":
                break
        ids = env.proto_ids()
        got = [ids.get(t, str(t)) for t, _ in w.sent_frames()[n0:]]
        key = f"peer-connect:{'noise' if noise else 'plain'}:{'login' if login else 'nologin'}:{'+'.join(seq)}:{'one-chunk' if one_chunk else 'separate'}"
        d = {"noise": noise, "seq": list(seq), "one_chunk": one_chunk, "login": login}
        if got != exp:
            out["viol"].append({"key": key, "clause": f"C12:peer:during the hello/login exchange the device sent {list(seq)}; client wrote {got}, expected {exp}", **d})
        if "DR" in seq:
            if w.conn.connection_state.name != "CLOSED":
                out["viol"].append({"key": key + ":close", "clause": f"C12:peer:disconnect request during the hello/login exchange: state {w.conn.connection_state.name}, expected CLOSED", **d})
        elif w.outcome("finish") != "ok":
            out["viol"].append({"key": key + ":finish", "clause": f"C12:peer:finish_connection ended {w.outcome('finish')} although hello/login were answered correctly ({list(seq)})", **d})
    finally:
        w.close()
    return out


PEER = {"PR": "PingRequest", "TR": "GetTimeRequest", "DR": "DisconnectRequest", "ST": "SensorStateResponse", "UK": None, "GB": None}
ANSWER = {"PR": "PingResponse", "TR": "GetTimeResponse", "DR": "DisconnectResponse"}


def peer_job(args: tuple[Any, ...]) -> dict[str, Any]:
    env.load()
    noise, seq, one_chunk = args[:3]
    from .. import world as _world

    _world.DEFAULT_DEBUG[0] = len(args) > 3 and bool(args[3])  # the same sequence with debug logging requested
    recycle = len(args) > 4 and bool(args[4])  # a transport that recycles its receive buffer; frames arrive in 3-byte reads
    tz = args[5] if len(args) > 5 else None  # the process runs in this time zone (the time answer is seconds since the epoch, whatever the zone)
    if tz:
        import os as _os
        import time as _time

        old_tz = _os.environ.get("TZ")
        _os.environ["TZ"] = tz
        _time.tzset()
        try:
            out_tz = peer_job(tuple(args[:5]) + (None,) + tuple(args[6:]))
        finally:
            if old_tz is None:
                _os.environ.pop("TZ", None)
            else:
                _os.environ["TZ"] = old_tz
            _time.tzset()
        for v in out_tz["viol"]:
            v["key"] += f":TZ={tz}"
            v["clause"] += f" [process time zone {tz}]"
            v["tz"] = tz
        return out_tz
    # the wall clock moves by this much before every frame of the device (a time request is answered with the reading at that moment,
    # also long after the session was established, also after the clock was set back)
    clock_step = float(args[6]) if len(args) > 6 and args[6] else 0.0
    cut = int(args[7]) if len(args) > 7 and args[7] else 0  # all frames in one stream, delivered in two reads cut at this byte offset
    _world.RECYCLE_RX[0] = recycle
    out: dict[str, Any] = {"evals": 1, "viol": []}
    try:
        w, probe = connected(noise)
    finally:
        _world.RECYCLE_RX[0] = False
    try:
        out = _peer_run(w, probe, noise, seq, one_chunk, recycle, clock_step, cut)
    finally:
        w.close()
    for v in out["viol"]:
        v.update(debug=bool(_world.DEFAULT_DEBUG[0]), recycle=recycle, clock_step=clock_step, cut=cut)
        if cut:
            v["key"] += f":cut{cut}"
            v["clause"] += f" [one stream, two reads cut at byte {cut}]"
        if clock_step:
            v["key"] += f":clock{clock_step:+g}"
            v["clause"] += f" [wall clock moves {clock_step:+g} s before every frame]"
    return out


def _peer_run(w: ConnWorld, probe: Probe, noise: bool, seq: tuple[str, ...], one_chunk: bool, recycle: bool, clock_step: float,
              cut: int = 0) -> dict[str, Any]:
    from .. import world as _world

    out: dict[str, Any] = {"evals": 1, "viol": []}
    readings: list[int] = []
    if True:
        n0 = len(w.sent_frames())
        # "GB": bytes that are no frame start (garbage behind well-formed frames): what stands in front of it is processed first
        garbage = b"\x7f\x7f\x7f" if not noise else b"\x00\x00\x01x"
        frames = [garbage if a == "GB" else raw_frame(w, 9999, b"q") if a == "UK" else w.dframe(mk(PEER[a])) for a in seq]  # type: ignore[arg-type]
        if recycle:
            blob = b"".join(frames)
            for i in range(0, len(blob), 3):
                if w.sock is None or w.sock.closed:
                    break
                w.io_chunk(w.sock, blob[i : i + 3])
                w.drain()
        elif cut:
            blob = b"".join(frames)
            if cut >= len(blob):
                out["evals"] = 0
                return out
            for part in (blob[:cut], blob[cut:]):
                if w.sock is None or w.sock.closed:
                    break
                w.io_chunk(w.sock, part)
                w.drain()
        elif one_chunk:
            _world.WALL[0] += clock_step
            readings = [int(_world.WALL[0]) for a in seq if a == "TR"]
            w.io_chunk(w.sock, b"".join(frames))
            w.drain()
        else:
            for a, f in zip(seq, frames):
                if w.sock is None or w.sock.closed:
                    break
                _world.WALL[0] += clock_step
                if a == "TR":
                    readings.append(int(_world.WALL[0]))
                w.io_chunk(w.sock, f)
                w.drain()
        if recycle:
            readings = [int(_world.WALL[0]) for a in seq if a == "TR"]
        exp: list[str] = []
        closed = False
        garbage_closed = False
        for a in seq:
            if closed:
                break
            if a == "GB":
                closed = garbage_closed = True
                break
            if a in ANSWER:
                exp.append(ANSWER[a])
            if a == "DR":
                closed = True
        ids = env.proto_ids()
        try:
            sent = w.sent_frames()[n0:]
        except Exception as e:  # noqa: BLE001
            key = f"peer:{'noise' if noise else 'plain'}:{'+'.join(seq)}:unreadable"
            out["viol"].append({"key": key, "clause": f"C12:peer:device sent {list(seq)}; what the client wrote cannot be read back as consecutive frames "
                                f"({type(e).__name__}: a reply was lost, reordered or mangled)", "noise": noise, "seq": list(seq), "one_chunk": one_chunk})
            return out
        got = [ids.get(t, str(t)) for t, _ in sent]
        key = f"peer:{'noise' if noise else 'plain'}{':debug' if _world.DEFAULT_DEBUG[0] else ''}{':recycled-rx' if recycle else ''}:{'+'.join(seq)}:{'one-chunk' if one_chunk else 'separate'}"
        if got != exp:
            out["viol"].append({"key": key, "clause": f"C12:peer:device sent {list(seq)}; client wrote {got}, expected {exp}", "noise": noise, "seq": list(seq), "one_chunk": one_chunk})
            return out
        ri = 0
        for (t, pl), name in zip(sent, got):
            if name == "GetTimeResponse":
                m = mk("GetTimeResponse")
                m.ParseFromString(pl)
                want = readings[ri] if ri < len(readings) else FIXED_EPOCH
                ri += 1
                if m.epoch_seconds != want:
                    out["viol"].append({"key": key + ":time", "clause": f"C12:peer:time response carries {m.epoch_seconds}, the clock reads {want}", "noise": noise, "seq": list(seq), "one_chunk": one_chunk})
        if garbage_closed:
            stops = [e for _, e, _ in w.stops]
            if w.conn.connection_state.name != "CLOSED" or stops != [False]:
                out["viol"].append({"key": key + ":close", "clause": f"C12:peer:after the garbage: state {w.conn.connection_state.name}, on_stop calls {stops}; expected CLOSED and [False]", "noise": noise, "seq": list(seq), "one_chunk": one_chunk})
        elif closed:
            stops = [e for _, e, _ in w.stops]
            if w.conn.connection_state.name != "CLOSED" or stops != [True]:
                out["viol"].append({"key": key + ":close", "clause": f"C12:peer:after the disconnect request: state {w.conn.connection_state.name}, on_stop calls {stops}; expected CLOSED and [True]", "noise": noise, "seq": list(seq), "one_chunk": one_chunk})
        elif w.conn.connection_state.name != "CONNECTED":
            out["viol"].append({"key": key + ":state", "clause": f"C12:peer:connection is {w.conn.connection_state.name} after {list(seq)}", "noise": noise, "seq": list(seq), "one_chunk": one_chunk})
        # traffic frames before the close are delivered once, in order
        exp_probe = []
        for a in seq:
            if a == "GB":
                break
            if a == "DR":
                exp_probe.append("DisconnectRequest")
                break
            if PEER[a]:
                exp_probe.append(PEER[a])
        gotp = [type(m).__name__ for m in probe.calls]
        if gotp != exp_probe:
            out["viol"].append({"key": key + ":order", "clause": f"C12:order:subscriber saw {gotp}, expected {exp_probe}", "noise": noise, "seq": list(seq), "one_chunk": one_chunk})
    return out


def raising_subscriber_sweep(res: Result, owner: str = "C12", only: str | None = None) -> int:
    """An application subscriber raises while a message is dispatched to it - any class, including the library's own error classes (an
    application that forwards to another device hands on that connection's error).  The exception leaves data_received and the transport
    tears the connection down: that is the end of the session for every subscriber and every waiter.  What may not happen is that the
    session goes on while some subscriber never saw the message, or while a waiter is left hanging.
    owner 'C12': the delivery clauses; owner 'C11': the pending call's clause."""
    import asyncio

    from aioesphomeapi import core

    pb = env.pb()
    n = 0
    classes = {"ValueError": ValueError("boom"), "KeyError": KeyError("boom"), "APIConnectionError": core.APIConnectionError("Not connected"),
               "SocketClosedAPIError": core.SocketClosedAPIError("other device: socket closed"), "TimeoutAPIError": core.TimeoutAPIError("other device"),
               "OSError": BrokenPipeError(32, "Broken pipe"), "TimeoutError": asyncio.TimeoutError()}
    for noise in (False, True):
        for cname, exc in classes.items():
            for who in (0, 1, 2):
                for one_chunk in (False, True):
                    key = f"raising-subscriber:{'noise' if noise else 'plain'}:{cname}:subscriber{who}:{'one-chunk' if one_chunk else 'separate'}"
                    if only is not None and key != only:
                        continue
                    w = ConnWorld(noise=noise, keepalive=1e6)
                    try:
                        try:
                            w.connect_fully()
                        except HarnessError:
                            if owner != "C12":
                                continue  # the plain connect sequence itself fails on this tree: the owner's own exploration reports it
                            raise
                        conn = w.conn
                        calls: list[tuple[int, float]] = []

                        def make(i: int) -> Any:
                            def cb(msg: Any) -> None:
                                calls.append((i, msg.state))
                                if i == who and msg.state == 1.0:
                                    raise exc
                            return cb

                        for i in range(3):
                            conn.add_message_callback(make(i), (pb.SensorStateResponse,))
                        aborted = [False]
                        if owner == "C11":
                            # ... and application callbacks on the very type the pending call waits for (whichever of them the dispatch reaches
                            # before the call's own handler raises)
                            def di_cb(msg: Any) -> None:
                                aborted[0] = True
                                raise exc

                            for _ in range(16):
                                conn.add_message_callback(lambda m, _f=di_cb: _f(m), (pb.DeviceInfoResponse,))
                        w.spawn("req", lambda: conn.send_message_await_response(mk("DeviceInfoRequest"), pb.DeviceInfoResponse, 10.0))
                        w.drain()
                        frames = [w.dframe(mk("SensorStateResponse", key=1, state=1.0)), w.dframe(mk("SensorStateResponse", key=1, state=2.0)),
                                  w.dframe(mk("DeviceInfoResponse", name="dev"))]
                        if one_chunk:
                            w.io_chunk(w.sock, b"".join(frames))
                            w.drain()
                        else:
                            for f in frames:
                                if w.sock is None or w.sock.closed:
                                    break
                                w.io_chunk(w.sock, f)
                                w.drain()
                        w.drain()
                        n += 1
                        first = sorted(i for i, st in calls if st == 1.0)
                        later = [(i, st) for i, st in calls if st != 1.0]
                        d = {"harness": "c12-raising", "key": key, "owner": owner}
                        closed = conn.connection_state.name == "CLOSED"
                        if owner == "C12":
                            if who not in first:
                                raise HarnessError(f"{key}: the raising subscriber was never called")
                            if first != [0, 1, 2] and not closed:
                                res.add(key, f"C12:lost-delivery:subscriber {who} raised {cname} while state 1.0 was dispatched; subscribers {sorted(set(range(3)) - set(first))} "
                                        f"never saw that message, yet the session goes on (state {conn.connection_state.name})", d)
                            elif first != [0, 1, 2] and later:
                                res.add(key, f"C12:delivery-after-abort:subscriber {who} raised {cname}; the dispatch of that message was abandoned, but later messages "
                                        f"were still delivered: {later}", d)
                        else:
                            r = w.results.get("req")
                            if r is None and not closed:
                                w.run_timers(w.loop.time() + 30.0)
                                r = w.results.get("req")
                            if r is None:
                                res.add(key, f"C11:hang:a subscriber raised {cname}; the call that was waiting never ended", d)
                            elif r[0] == "exc" and isinstance(r[1], core.TimeoutAPIError) and (first != [0, 1, 2] or aborted[0]) and r[2] >= w.started["req"] + 10.0 - 1e-6:
                                res.add(key, f"C11:lost-answer:a subscriber raised {cname}; the call waited out its own timeout although its answer had arrived "
                                        f"(or the connection had failed) long before", d)
                            elif r[0] == "exc" and not isinstance(r[1], core.APIConnectionError):
                                res.add(key, f"C11:unclassified:a subscriber raised {cname}; the waiting call ended {type(r[1]).__name__}", d)
                    finally:
                        w.close()
    return n


def _safe_job(packed: tuple[str, Any]) -> dict[str, Any]:
    """A job that dies inside the library (an exception the harness did not expect there) must not take the other jobs' verdicts with
    it: it is reported, and fails the run as a harness error only if no job found a violation."""
    name, args = packed
    try:
        return globals()[name](args)  # type: ignore[no-any-return]
    except Exception as e:  # noqa: BLE001
        return {"evals": 0, "viol": [], "dispatches": 0, "crash": f"{name}{args!r}: {type(e).__name__}: {str(e)[:200]}"}


def run(tier: str, seed: int) -> Result:
    res = Result("C12", "model_checking")
    q = tier == "quick"
    ctx = mp.get_context("fork")
    nproc = min(16, os.cpu_count() or 1)
    # (a)
    step = 2048
    jobs_a: list[tuple[Any, ...]] = [(False, lo, min(lo + step, 65536)) for lo in range(0, 65536, step)]
    jobs_a += [(True, lo, min(lo + step, 65536)) for lo in range(0, 65536, step)]
    jobs_a += [(False, 0, 2048, True), (True, 0, 2048, True)]  # the defined ids and their neighbours once more with debug logging requested
    # (b)
    depth = 5 if q else 6
    jobs_b = [(depth, p, 25) for p in range(25)]
    # (c)
    alph = ("PR", "TR", "DR", "ST", "UK")
    seqs = [s for n in (1, 2, 3) for s in itertools.product(alph, repeat=n)]
    jobs_c: list[tuple[Any, ...]] = [(noise, s, oc) for noise in (False, True) for s in seqs for oc in (False, True)]
    jobs_c += [(noise, s, True, True) for noise in (False, True) for s in seqs if len(s) <= 2]
    jobs_c += [(noise, s, False, False, True) for noise in (False, True) for s in seqs if len(s) <= 2]
    jobs_c += [(noise, s + ("GB",), oc) for noise in (False, True) for s in seqs if len(s) <= 2 and "DR" not in s for oc in (False, True)]
    jobs_c += [(noise, s, True, False, False, tz) for noise in (False, True) for s in seqs if len(s) <= 2 and "TR" in s for tz in ("XYZ5", "ABC-9:30")]
    jobs_c += [(noise, s, oc, False, False, None, step) for noise in (False, True) for s in seqs if len(s) <= 3 and "TR" in s
               for oc in (False, True) for step in (3600.5, -86400.0)]
    jobs_c += [(noise, s, True, False, False, None, 0.0, c) for noise in (False, True) for s in seqs if len(s) <= 2 for c in range(1, 12 if not noise else 56)]
    jobs_b2 = [(3, p, 25) for p in range(25)]
    jobs_c2: list[tuple[bool, bool, tuple[str, ...], bool]] = []
    for noise in (False, True):
        for login in (False, True):
            tail = ("HELLO", "CONN") if login else ("HELLO",)
            for rq in ("PR", "TR", "DR"):
                for pos in range(len(tail) + 1):
                    sq = tail[:pos] + (rq,) + tail[pos:]
                    for oc in (False, True):
                        jobs_c2.append((noise, login, sq, oc))
                if rq != "DR":
                    jobs_c2.append((noise, login, (rq, rq) + tail + (rq,), True))
    with ctx.Pool(nproc) as pool:
        def safe(name: str, jobs: list[Any]) -> list[Any]:
            return [(name, j) for j in jobs]

        ra = pool.map_async(_safe_job, safe("sweep_job", jobs_a), chunksize=1)
        rb = pool.map_async(_safe_job, safe("hist_job", jobs_b), chunksize=1)
        rb2 = pool.map_async(_safe_job, safe("fresh_hist_job", jobs_b2), chunksize=1)
        rc = pool.map_async(_safe_job, safe("peer_job", jobs_c), chunksize=16)
        rc2 = pool.map_async(_safe_job, safe("peer_connect_job", jobs_c2), chunksize=4)
        rc3 = pool.map_async(_safe_job, safe("bad_payload_states_job", [False, True]), chunksize=1)
        rc4 = pool.map_async(_safe_job, safe("keepalive_states_job", [False, True]), chunksize=1)
        outs_a, outs_b, outs_c = ra.get(), rb.get() + rb2.get(), rc.get() + rc2.get() + rc3.get() + rc4.get()
    crashed = [o["crash"] for o in outs_a + outs_b + outs_c if o.get("crash")]
    # large varints (plaintext only: the Noise type field is 16 bit)
    raising_runs = raising_subscriber_sweep(res)
    big_evals = 0
    w, probe = connected(False)
    try:
        for t in (65536, 2**21, 2**31, 2**32, 2**63, 2**64, 2**70):
            before = conn_fp(w)
            for pl in (b"", b"\x08\x01", b"\xff\xff"):
                w.io_chunk(w.sock, wire.encode_frame(t, pl))
                w.drain()
                big_evals += 1
            if conn_fp(w) != before or probe.calls or w.loop.errors:
                res.add(f"undefined:{t}", f"frame with undefined (large) type {t} had an effect", {"harness": "c12-id", "noise": False, "type": t, "payload": "empty"})
        # large frames (plaintext carries its length as a varint: nothing limits it to 16 bit)
        pb = env.pb()
        for size in (65535, 65536, 70000, 300000):
            if w.conn.connection_state.name != "CONNECTED":
                break
            del probe.calls[:]
            before = conn_fp(w)
            img = pb.CameraImageResponse(key=3, data=bytes(size), done=True)
            w.io_chunk(w.sock, raw_frame(w, 9999, bytes(size)) + w.dframe(img) + w.dframe(mk("SensorStateResponse", key=1, state=2.0)))
            w.drain()
            big_evals += 2
            got = [type(m).__name__ for m in probe.calls]
            if got != ["CameraImageResponse", "SensorStateResponse"] or len(probe.calls[0].data) != size:
                res.add(f"large:{size}", f"a {size}-byte frame of undefined type followed by a {size}-byte CameraImageResponse and a state: "
                        f"subscribers got {got}, connection {w.conn.connection_state.name}", {"harness": "c12-id", "noise": False, "type": 9999, "payload": f"{size} bytes"})
            del before
    finally:
        w.close()
    for o in outs_a + outs_b + outs_c:
        for v in o["viol"]:
            res.add(v["key"], v["clause"], {"harness": "c12", **{k: x for k, x in v.items() if k not in ("key", "clause")}})
    evals_a = sum(o["evals"] for o in outs_a) + big_evals
    evals_b = sum(o["evals"] for o in outs_b)
    evals_c = sum(o["evals"] for o in outs_c)
    defined_ok = sum(o.get("defined_ok", 0) for o in outs_a)
    undefined_ok = sum(o.get("undefined_ok", 0) for o in outs_a)
    bad_closed = sum(o.get("bad_payload_closed", 0) for o in outs_a)
    if crashed and not res.violations:
        raise HarnessError(f"{len(crashed)} job(s) died: {crashed[0]}")
    if not res.violations and (defined_ok < 400 or undefined_ok < 200000 or bad_closed < 100 or evals_b < 10000):
        raise HarnessError(f"vacuous: defined_ok={defined_ok} undefined_ok={undefined_ok} bad_closed={bad_closed} hist={evals_b}")
    res.coverage = {
        "states": evals_b,
        "transitions": sum(o["dispatches"] for o in outs_b),
        "traces_validated_against_impl": evals_a + evals_b + evals_c,
        "id_payload_deliveries": evals_a,
        "defined_id_cases_delivered_correctly": defined_ok,
        "undefined_id_cases_without_effect": undefined_ok,
        "undecodable_payload_cases_closed_with_protocol_error": bad_closed,
        "subscribe_histories": evals_b,
        "history_depth": depth,
        "raising_subscriber_runs": raising_runs,
        "peer_request_sequences": evals_c,
        "exhaustive": True,
        "samples": [
            {"part": "ids", "what": "every type id 0..65535 x {empty, valid-of-some-message, truncated, junk} through plaintext and Noise sessions"},
            {"part": "histories", "bodies": list(BODIES), "ops": list(OPS), "depth": depth},
            {"part": "peer", "sequence": ["PR", "TR", "DR"], "delivery": "one chunk and separate chunks"},
        ],
        "rule": "states = subscribe/unsubscribe/dispatch histories executed against snapshot semantics; transitions = dispatches inside them",
    }
    res.assumptions = [
        "'decodable' is decided by the protobuf runtime itself (MergeFromString on a fresh instance of the class declared for that id)",
        "histories call the connection's process_packet entry point directly on a connected session",
    ]
    return res


def replay(rp: dict[str, Any]) -> bool:
    d = rp["detail"]
    print(rp["key"], "|", rp["violated"])
    if "history" in d:
        hw = HistWorld()
        try:
            v = hw.run(tuple(d["bodies"]), tuple(d["history"]))
        finally:
            hw.w.close()
        print("->", v)
        return v is None
    if d.get("harness") == "c12-raising":
        r = Result("C12", "model_checking")
        raising_subscriber_sweep(r, d.get("owner", "C12"), only=d["key"])
        print(d["key"], "->", [v.clause for v in r.violations] or "holds")
        return not r.violations
    if "stimuli" in d:
        o = keepalive_states_job(bool(d["noise"]))
        bad = [v for v in o["viol"] if v["key"] == rp["key"]]
        print("->", [v["clause"] for v in bad] or "holds")
        return not bad
    if "seq" in d:
        o = peer_job((d["noise"], tuple(d["seq"]), d["one_chunk"], d.get("debug", False), d.get("recycle", False), d.get("tz"), d.get("clock_step", 0.0), d.get("cut", 0)))
        print("->", o["viol"])
        return not o["viol"]
    if "type" in d:
        t = int(d["type"])
        o = sweep_job((bool(d["noise"]), t, t + 1)) if t < 65536 else {"viol": ["large id: rerun the check"]}
        print("->", o["viol"])
        return not o["viol"]
    return False
