"""C02 - everything the client writes conforms to the documented wire format.

(a) helper level: write_packets of both frame helpers over a recording transport, swept over type ids,
    payload lengths and batch shapes, decoded by the independent codecs (mc/wire.py strict decoder;
    mc/noise_ref.py responder whose own receive nonce starts at 0 and advances by one per frame).
(b) connection level: a connected simulated session (plaintext and Noise); send_messages with every
    registered message class (default and populated); ids checked against the api.proto text.
"""

from __future__ import annotations

import base64
from typing import Any

from .. import env, noise_ref, pbgen, wire
from ..evidence import Result
from ..vloop import HarnessError, VLoop
from ..world import ConnWorld, seed_bytes


class RecTransport:
    def __init__(self) -> None:
        self.writes: list[bytes] = []
        self.closed = False
        self.fail_next: Exception | None = None  # the next write raises (a peer that went away)

    def write(self, data: Any) -> None:
        if self.fail_next is not None:
            err, self.fail_next = self.fail_next, None
            raise err
        self.writes.append(bytes(data))

    def close(self) -> None:
        self.closed = True

    def is_closing(self) -> bool:
        return self.closed

    def get_extra_info(self, *a: Any) -> Any:
        return None


class RecConn:
    def __init__(self) -> None:
        self.got: list[Any] = []
        self.errors: list[Any] = []

    def process_packet(self, t: Any, d: Any) -> None:
        self.got.append((t, d))

    def report_fatal_error(self, e: Any) -> None:
        self.errors.append(e)


def filler(n: int, tag: str) -> bytes:
    import hashlib

    out = bytearray()
    i = 0
    while len(out) < n:
        out += hashlib.sha256(f"{env.SEED}:{tag}:{i}".encode()).digest()
        i += 1
    return bytes(out[:n])


DEBUG = [False]  # the debug_enabled argument of write_packets (the wire bytes must not depend on it)


class Counter:
    def __init__(self) -> None:
        self.evals = 0
        self.distinct: set[Any] = set()
        self.samples: list[Any] = []


def plain_helper() -> tuple[Any, RecTransport]:
    from aioesphomeapi._frame_helper.plain_text import APIPlaintextFrameHelper

    tr = RecTransport()
    h = APIPlaintextFrameHelper(connection=RecConn(), client_info="x", log_name="x")  # type: ignore[arg-type]
    h.connection_made(tr)  # type: ignore[arg-type]
    return h, tr


def noise_helper(tag: str) -> tuple[Any, RecTransport, noise_ref.NoiseDevice]:
    from aioesphomeapi._frame_helper.noise import APINoiseFrameHelper

    psk = seed_bytes("psk-" + tag)
    tr = RecTransport()
    h = APINoiseFrameHelper(
        connection=RecConn(),  # type: ignore[arg-type]
        noise_psk=base64.b64encode(psk).decode(),
        expected_name=None,
        client_info="x",
        log_name="x",
    )
    h.connection_made(tr)  # type: ignore[arg-type]
    dev = noise_ref.NoiseDevice(psk, seed_bytes("eph-" + tag), name="dev")
    if len(tr.writes) != 1:
        raise HarnessError("noise hello+handshake must be one write")
    dev.feed(tr.writes[0])
    if not dev.handshake_done:
        raise HarnessError("reference responder rejected the client handshake")
    h.data_received(dev.hello_frame() + dev.handshake_frame())
    tr.writes.clear()
    return h, tr, dev


def check_plain(res: Result, c: Counter, packets: list[tuple[int, bytes]], h: Any, tr: RecTransport) -> None:
    tr.writes.clear()
    c.evals += 1
    key = "plain:" + ",".join(f"{t}/{len(p)}" for t, p in packets)
    try:
        h.write_packets(packets, DEBUG[0])
    except Exception as e:  # noqa: BLE001
        res.add(key, f"write_packets raised {type(e).__name__}: {e}", {"packets": [(t, len(p)) for t, p in packets]})
        return
    if len(tr.writes) != 1:
        res.add(key, f"{len(tr.writes)} transport writes for one batch", {"packets": [(t, len(p)) for t, p in packets]})
        return
    try:
        dec = wire.decode_strict(tr.writes[0])
    except wire.WireError as e:
        res.add(key, f"written bytes do not decode under the plaintext format: {e}",
                {"packets": [(t, len(p)) for t, p in packets], "written": tr.writes[0][:64]})
        return
    if dec != packets:
        res.add(key, "decoded packets differ from the packets given",
                {"packets": [(t, len(p)) for t, p in packets], "decoded": [(t, len(p)) for t, p in dec]})
        return
    c.distinct.add(key)


def check_noise(res: Result, c: Counter, packets: list[tuple[int, bytes]], h: Any, tr: RecTransport,
                dev: noise_ref.NoiseDevice) -> bool:
    tr.writes.clear()
    c.evals += 1
    key = "noise:" + ",".join(f"{t}/{len(p)}" for t, p in packets)
    n0 = len(dev.received)
    nonce0 = dev.r.rx.n  # type: ignore[union-attr]
    try:
        h.write_packets(packets, DEBUG[0])
    except Exception as e:  # noqa: BLE001
        res.add(key, f"write_packets raised {type(e).__name__}: {e}", {"packets": [(t, len(p)) for t, p in packets]})
        return False
    if not packets:
        # an empty batch: nothing to say - at most an empty write, and no nonce is used up (the next batch proves it)
        if any(tr.writes):
            res.add("noise:empty-batch", f"an empty batch wrote {sum(map(len, tr.writes))} bytes", {})
            return False
        return True
    if len(tr.writes) != 1:
        res.add(key, f"{len(tr.writes)} transport writes for one batch", {"packets": [(t, len(p)) for t, p in packets]})
        return False
    try:
        dev.feed(tr.writes[0])
    except Exception as e:  # noqa: BLE001
        res.add(f"noise:nonce{nonce0}:" + type(e).__name__ if "Tag" in type(e).__name__ else key,
                f"reference responder cannot decode the write (receive nonce {nonce0}): {type(e).__name__}: {e}",
                {"packets": [(t, len(p)) for t, p in packets], "nonce": nonce0})
        return False
    if dev.client_buf:
        res.add(key, "trailing bytes after the last complete Noise frame", {"rest": dev.client_buf[:32]})
        return False
    got = dev.received[n0:]
    if got != packets:
        res.add(key, "decrypted packets differ from the packets given",
                {"packets": [(t, len(p)) for t, p in packets], "decoded": [(t, len(p)) for t, p in got]})
        return False
    if dev.r.rx.n != nonce0 + len(packets):  # type: ignore[union-attr]
        res.add(key, "nonce did not advance by one per frame", {})
        return False
    c.distinct.add(key)
    return True


def run(tier: str, seed: int) -> Result:
    env.load()
    loop = VLoop()
    loop.install()
    res = Result("C02", "exploration")
    c = Counter()
    quick = tier == "quick"
    try:
        # ---------------- (a) plaintext helper ------------------------------------------------------
        h, tr = plain_helper()
        max_type = 70000
        for t in range(0, max_type + 1):
            check_plain(res, c, [(t, b"")], h, tr)
            if t % 7 == seed % 7 or t in (127, 128, 16383, 16384, 65535, 65536):
                check_plain(res, c, [(t, b"\x08")], h, tr)
        for t in (2**21 - 1, 2**21, 2**28, 2**32, 2**35 + 5):
            check_plain(res, c, [(t, b"ab")], h, tr)
        lens = list(range(0, 301)) + [16383, 16384, 16385, 65515, 65535, 65536, 70000, 2**21 - 1, 2**21]
        if not quick:
            lens = sorted(set(lens) | set(range(0, 2200)) | set(range(2200, 70001, 97)) | {2**14 + d for d in range(-3, 4)} | {2**16 + d for d in range(-3, 4)})
        for ln in lens:
            pl = filler(ln, "p")
            for t in (1, 127, 128, 16384):
                check_plain(res, c, [(t, pl)], h, tr)
        small = [(1, b""), (128, b"x"), (16384, filler(130, "s")), (5, filler(127, "t")), (300, filler(128, "u"))]
        for a in small:
            for b in small:
                check_plain(res, c, [a, b], h, tr)
                for d in small:
                    check_plain(res, c, [a, b, d], h, tr)
        # the same length / batch sweeps with debug logging requested (what is written must not depend on it)
        DEBUG[0] = True
        hd, trd = plain_helper()
        for ln in lens:
            pl = filler(ln, "p")
            for t in (1, 128):
                check_plain(res, c, [(t, pl)], hd, trd)
        big = [(1, filler(1500, "b1")), (128, filler(700, "b2")), (16384, filler(3000, "b3"))]
        for a in small + big:
            for b in small + big:
                check_plain(res, c, [a, b], hd, trd)
        hdn, trdn, devd = noise_helper("d")
        for ln in list(range(0, 301, 7)) + [2000, 2030, 2048, 2049, 4096, 16384, 65515]:
            check_noise(res, c, [(1, filler(ln, "n"))], hdn, trdn, devd)
        for a in small + big:
            for b in small + big:
                check_noise(res, c, [a, b], hdn, trdn, devd)
        DEBUG[0] = False
        # several sessions in one process, one of which suffers a failed write: every other session's next writes must be untouched
        for fail_exc in (OSError(32, "Broken pipe"), RuntimeError("closed"), ConnectionResetError(104, "reset")):
            sess_n = [noise_helper(f"x{i}") for i in range(3)]
            sess_p = [plain_helper() for _ in range(2)]
            batch = [(5, filler(40, "m1")), (128, filler(200, "m2"))]
            for rnd in range(3):
                for i, (hx, trx, devx) in enumerate(sess_n):
                    if rnd == 1 and i == 1:
                        trx.fail_next = fail_exc
                        try:
                            hx.write_packets(batch, False)
                        except Exception:  # noqa: BLE001
                            pass  # the failing session's own fate is C08/C09's subject
                        continue
                    if rnd >= 1 and i == 1:
                        continue  # that session is dead
                    check_noise(res, c, batch, hx, trx, devx)
                for i, (hp, trp) in enumerate(sess_p):
                    if rnd == 1 and i == 0:
                        trp.fail_next = fail_exc
                        try:
                            hp.write_packets(batch, False)
                        except Exception:  # noqa: BLE001
                            pass
                        continue
                    if rnd >= 1 and i == 0:
                        continue
                    check_plain(res, c, batch, hp, trp)
            # a session opened after the failure
            hx, trx, devx = noise_helper("late")
            check_noise(res, c, batch, hx, trx, devx)
        # ---------------- (a) noise helper ----------------------------------------------------------
        hn, trn, dev = noise_helper("a")
        step = 1 if not quick else 3
        for t in list(range(0, 65536, step)) + [255, 256, 65535]:
            check_noise(res, c, [(t, b"")], hn, trn, dev)
        nlens = list(range(0, 301)) + [16383, 16384, 16385, 65514, 65515]
        if not quick:
            nlens = sorted(set(nlens) | set(range(0, 2200)) | set(range(2200, 65516, 97)) | {2**15 - 20 + d for d in range(-8, 9)} | {65515 - d for d in range(0, 6)})
        for ln in nlens:
            pl = filler(ln, "n")
            for t in (1, 255, 256):
                check_noise(res, c, [(t, pl)], hn, trn, dev)
        for a in small:
            for b in small:
                check_noise(res, c, [a, b], hn, trn, dev)
                if not quick:
                    for d in small:
                        check_noise(res, c, [a, b, d], hn, trn, dev)
        # nonce continuity over a long history on one session: batch sizes cycle 1,2,3
        hn2, trn2, dev2 = noise_helper("b")
        target = 200000 if not quick else 66000
        i = 0
        ok = True
        while dev2.r.rx.n < target and ok:  # type: ignore[union-attr]
            k = i % 3 + 1
            pk = [((i + j) % 120 + 1, bytes([j, i % 251])) for j in range(k)]
            ok = check_noise(res, c, pk, hn2, trn2, dev2)
            if ok and i % 1000 == 7:
                ok = check_noise(res, c, [], hn2, trn2, dev2)  # now and then an empty batch in between
            i += 1
        nonce_reached = dev2.r.rx.n  # type: ignore[union-attr]
        # ---------------- (b) connection level ------------------------------------------------------
        loop.uninstall()
        n2i = env.proto_name_to_id()
        pb = env.pb()
        sent_types = 0
        for noise, debug, disc_pending in ((False, False, False), (True, False, False), (False, True, False), (True, True, False),
                                           (False, False, True), (True, False, True)):
            w = ConnWorld(noise=noise)
            try:
                w.connect_fully()
                if debug:
                    w.conn.set_debug(True)
                if disc_pending:
                    # a graceful disconnect() has written its request and waits for the answer: the session is still alive and what
                    # the application (or the keepalive) sends meanwhile is written like anything else
                    w.spawn("disc", w.conn.disconnect)
                    w.drain()
                sock = w.sock
                assert sock is not None
                base_writes = len(sock.sent)
                base_frames = len(w.sent_frames())
                from aioesphomeapi.core import MESSAGE_TYPE_TO_PROTO

                classes = list(MESSAGE_TYPE_TO_PROTO.values())
                batch: list[Any] = []
                for idx, klass in enumerate(classes):
                    for variant in ("default", "populated"):
                        msg = klass()
                        if variant == "populated":
                            pbgen.populate(msg, salt=idx)
                            if noise and msg.ByteSize() > 60000:
                                continue
                        batch = [msg] if idx % 3 else [msg, klass()]
                        if variant == "default" and idx % 5 == 0:
                            # a batch the caller got wrong (its second message has no wire id): it must be refused as a whole - nothing
                            # written, no nonce consumed - so that the next correct batch is still decodable
                            n_w = len(sock.sent)
                            try:
                                w.conn.send_messages((klass(), pb.ExecuteServiceArgument(), klass()))
                                res.add(f"conn:{'noise' if noise else 'plain'}:bad-batch:accepted", "a batch containing a message without a wire id was accepted", {})
                            except Exception:  # noqa: BLE001
                                pass
                            if len(sock.sent) != n_w:
                                res.add(f"conn:{'noise' if noise else 'plain'}:bad-batch:wrote", "a refused batch wrote bytes to the transport", {})
                                base_writes = len(sock.sent)
                        c.evals += 1
                        key = f"conn:{'noise' if noise else 'plain'}{':debug' if debug else ''}{':disconnect-pending' if disc_pending else ''}:{klass.__name__}:{variant}"
                        try:
                            w.conn.send_messages(tuple(batch))
                        except Exception as e:  # noqa: BLE001
                            res.add(key, f"send_messages raised {type(e).__name__}: {e}", {})
                            continue
                        if len(sock.sent) != base_writes + 1:
                            res.add(key, f"{len(sock.sent) - base_writes} socket writes for one send_messages call", {})
                            base_writes = len(sock.sent)
                            base_frames = len(w.sent_frames())
                            continue
                        base_writes += 1
                        try:
                            frames = w.sent_frames()[base_frames:]
                        except Exception as e:  # noqa: BLE001
                            res.add(key, f"written bytes do not decode: {type(e).__name__}: {e}", {})
                            break
                        base_frames += len(frames)
                        if not noise:
                            # strictness (minimal varints) of exactly this write
                            try:
                                wire.decode_strict(sock.sent[-1][1])
                            except wire.WireError as e:
                                res.add(key, f"write is not a whole number of minimal-varint frames: {e}", {})
                                continue
                        if len(frames) != len(batch):
                            res.add(key, f"{len(frames)} frames for {len(batch)} messages", {})
                            continue
                        good = True
                        for m, (t, pl) in zip(batch, frames):
                            want = n2i.get(type(m).__name__)
                            if t != want:
                                res.add(key, f"type id {t} on the wire, api.proto says {want} for {type(m).__name__}", {})
                                good = False
                                break
                            back = type(m)()
                            back.ParseFromString(pl)
                            if back != m:
                                res.add(key, "payload does not parse back to an equal message", {})
                                good = False
                                break
                        if good:
                            c.distinct.add(key)
                            sent_types += 1
            finally:
                w.close()
        # backpressure: the socket cannot take (all of) the bytes, asyncio queues what it was handed and flushes it later
        for noise in (False, True):
            for mode in ("blocked", "partial-1", "partial-9", "blocked-after-first", "flood", "flood-raced:timer", "flood-raced:soon", "flood-raced:reply"):
                w = ConnWorld(noise=noise)
                try:
                    w.connect_fully()
                    sock = w.sock
                    assert sock is not None
                    f0 = len(w.sent_frames())
                    batches = [(pb.PingRequest(),), (pbgen.populate(pb.LightCommandRequest(), 3), pb.SubscribeStatesRequest()),
                               (pbgen.populate(pb.BluetoothGATTWriteRequest(), 5),), (pb.DeviceInfoRequest(), pb.ListEntitiesRequest(), pb.PingRequest())]
                    raced: Any = None
                    if mode.startswith("flood"):
                        # the device stops reading and more than the transport's high-water mark (64 KiB) is queued: asyncio tells the
                        # protocol to pause writing; what is sent meanwhile still reaches the device, once, in order
                        sock.writable = False
                        big = pb.BluetoothGATTWriteRequest(address=1, handle=2, data=bytes(30000))
                        batches = [(big,), (big,), (big,)] + batches + [(big,), (pb.PingRequest(),)]
                        if mode.startswith("flood-raced"):
                            # ... and one more batch is sent in the very loop turn in which the socket drains and asyncio tells the protocol
                            # to resume: from a timer that is due in that turn, from a callback queued before it, or as the reply to a device
                            # request read in that turn.  It was handed over last, so it reaches the device last.
                            raced = (pb.SwitchCommandRequest(key=77, state=True),)
                    if mode == "blocked":
                        sock.writable = False
                    elif mode.startswith("partial"):
                        sock.send_limit = int(mode.split("-")[1])
                    key = f"conn:{'noise' if noise else 'plain'}:backpressure:{mode}"
                    try:
                        for i, b in enumerate(batches):
                            if mode == "blocked-after-first" and i == 1:
                                sock.writable = False
                            w.conn.send_messages(b)
                            c.evals += 1
                        sock.writable = True
                        extra: list[Any] = []
                        if raced is not None:
                            how = mode.split(":")[1]
                            if how == "timer":
                                w.loop.call_later(0, w.conn.send_messages, raced)
                                extra = [raced]
                            elif how == "soon":
                                w.loop.call_soon(w.conn.send_messages, raced)
                                extra = [raced]
                            else:
                                w.io_chunk(sock, w.dframe(pb.PingRequest()))
                                extra = [(pb.PingResponse(),)]
                            c.evals += 1
                        w.drain()
                        frames = w.sent_frames()[f0:]
                    except Exception as e:  # noqa: BLE001
                        res.add(key, f"sending while the socket was {mode}: {type(e).__name__}: {e}", {})
                        continue
                    want = [(n2i[type(m).__name__], m.SerializeToString()) for b in batches + extra for m in b]
                    if frames != want:
                        res.add(key, f"batches sent while the socket was {mode}: the bytes that finally reached the device decode to "
                                f"{[(t, len(p)) for t, p in frames]}, expected {[(t, len(p)) for t, p in want]}", {})
                    else:
                        c.distinct.add(key)
                finally:
                    w.close()
        # the transport refuses one write (whatever class it uses for that): the frames that do reach the device are whole batches, in
        # order, and - for Noise - encrypted under consecutive nonces (the reference responder decrypts with its own counter)
        from aioesphomeapi.core import APIConnectionError as _ACE

        for noise in (False, True):
            for exc in (BlockingIOError(11, "Resource temporarily unavailable"), InterruptedError(4, "Interrupted system call"),
                        BrokenPipeError(32, "Broken pipe"), RuntimeError("the handler is closed"), TimeoutError(110, "Connection timed out")):
                for fault_at in (0, 1, 2):
                    key = f"conn:{'noise' if noise else 'plain'}:write-refused:{type(exc).__name__}:batch{fault_at}"
                    w = ConnWorld(noise=noise)
                    try:
                        try:
                            w.connect_fully()
                            f0 = len(w.sent_frames())
                        except Exception:  # noqa: BLE001
                            continue  # the plain connect sequence cannot even be read back on this tree: the sweeps above report why
                        batches = [(pb.PingRequest(),), (pb.SwitchCommandRequest(key=1, state=True), pb.SubscribeStatesRequest()),
                                   (pb.DeviceInfoRequest(),), (pb.ListEntitiesRequest(), pb.PingRequest())]
                        bad = None
                        for i, b in enumerate(batches):
                            if i == fault_at:
                                w.write_fault = exc
                            try:
                                w.conn.send_messages(b)
                            except _ACE:
                                pass
                            except Exception as e:  # noqa: BLE001
                                bad = f"send_messages raised {type(e).__name__}: {e}"
                                break
                            c.evals += 1
                            w.drain()
                        if bad is None:
                            try:
                                frames = w.sent_frames()[f0:]
                            except Exception as e:  # noqa: BLE001
                                bad = f"what reached the device cannot be read back as consecutive frames ({type(e).__name__})"
                        if bad is None:
                            # greedy match: whole batches, in order
                            rest = list(frames)
                            for b in batches:
                                enc = [(n2i[type(m).__name__], m.SerializeToString()) for m in b]
                                if rest[: len(enc)] == enc:
                                    rest = rest[len(enc):]
                            if rest and [x for x in rest if x[0] != n2i["DisconnectRequest"]]:
                                bad = f"the device received {[(t, len(p)) for t, p in frames]}, which is not a sequence of whole batches in order"
                        if bad:
                            res.add(key, f"one write refused with {type(exc).__name__} (batch {fault_at}): {bad}", {})
                        else:
                            c.distinct.add(key)
                    finally:
                        w.close()
    finally:
        loop.uninstall()
    if not res.violations and (c.evals < 50000 or nonce_reached < 65600):
        raise HarnessError(f"vacuous: evals={c.evals} nonce={nonce_reached}")
    res.coverage = {
        "evaluations": c.evals,
        "distinct_nontrivial": len(c.distinct),
        "rule": "one evaluation = one write_packets/send_messages call decoded by the independent codec; distinct = distinct "
        "(layer, type ids, payload lengths) shapes that decoded to exactly the packets given",
        "noise_nonce_reached_on_one_session": nonce_reached,
        "connection_level_message_shapes": sent_types,
        "exhaustive": True,
        "samples": [
            {"layer": "plain helper", "packets": "[(t, 0 bytes)] for every t in 0..70000"},
            {"layer": "noise helper", "packets": "history of batches 1,2,3,1,2,3,... until the receive nonce passed 65536"},
            {"layer": "connection", "call": "send_messages((populated BluetoothGATTWriteRequest,))"},
        ],
    }
    res.assumptions = [
        "Noise payloads above 65515 bytes do not fit the format's 16-bit frame length and are outside its domain (not enumerated)",
        "responder-side decryption uses its own nonce counter from 0, +1 per frame: any skipped or repeated nonce fails authentication",
    ]
    return res


def replay(rp: dict[str, Any]) -> bool:
    print(rp["key"], rp["violated"])
    r = run("quick", int(rp.get("seed", 0)))
    return not any(v.key == rp["key"] for v in r.violations)
