"""C16 - Bluetooth operations are matched by address and handle and never cross-talk.

Stateless exploration on a real connected APIClient: a set of <= 3 concurrent BLE operations over
addresses {A1,A2} x handles {H1,H2} is started, then every sequence (depth/deviation bounded, also two
frames per chunk and without draining between events) of device messages - matching, same address other
handle, other address same handle, GATT errors, connection-state changes, notify data - time advances to
the next timer, connection loss and "use the returned unsubscribe function" is executed.  One reference
state machine per operation consumes the same messages in loop processing order and predicts outcome,
completion instant, frames written and subscriptions left.
"""

from __future__ import annotations

from asyncio import events
import time
from typing import Any

from .. import env, fingerprint
from ..evidence import Result
from ..explore import Stats, explore_parallel
from ..vloop import HarnessError, timer_name
from ..world import ConnWorld, mk

ADDR = {1: 0xAABBCCDDEE01, 2: 2**64 - 1}  # the second address is the largest value the wire type (uint64) can carry
HAND = {1: 0x10, 2: 0}  # handle 0 is a handle like any other (and the value a "no handle" test would confuse it with)

GATT = {  # op kind -> (request message, response atom letter, timeout passed by the caller - deliberately not the default)
    "read": ("BluetoothGATTReadRequest", "R", 31.0),
    "readd": ("BluetoothGATTReadDescriptorRequest", "R", 32.0),
    "write": ("BluetoothGATTWriteRequest", "W", 33.0),
    "writed": ("BluetoothGATTWriteDescriptorRequest", "W", 34.0),
    "notify": ("BluetoothGATTNotifyRequest", "N", 7.0),
}
DEV = {"pair": ("P", 2, 27.0), "unpair": ("U", 3, 28.0), "clear": ("K", 6, 29.0)}
DISC_TIMEOUT = 17.0
CONN_TIMEOUT = 26.0
CONN_DISC_TIMEOUT = 13.0
ATOM_MSG = {
    "R": "BluetoothGATTReadResponse", "W": "BluetoothGATTWriteResponse", "N": "BluetoothGATTNotifyResponse", "E": "BluetoothGATTErrorResponse",
    "P": "BluetoothDevicePairingResponse", "U": "BluetoothDeviceUnpairingResponse", "K": "BluetoothDeviceClearCacheResponse",
    "S": "BluetoothGATTGetServicesResponse", "SD": "BluetoothGATTGetServicesDoneResponse", "D": "BluetoothGATTNotifyDataResponse",
    "CU": "BluetoothDeviceConnectionResponse", "CD": "BluetoothDeviceConnectionResponse",
}


def parse_op(op: str) -> tuple[str, int, int]:
    kind, _, where = op.partition("@")
    a, _, h = where.partition(".")
    return kind, int(a), int(h or 0)


def parse_atom(atom: str) -> tuple[str, int, int]:
    letter, _, where = atom.partition(":")
    a, _, h = where.partition(".")
    return letter, int(a), int(h or 0)


def atom_message(atom: str, n: int) -> Any:
    letter, a, h = parse_atom(atom)
    name = ATOM_MSG[letter]
    addr = ADDR[a]
    if letter == "R":
        return mk(name, address=addr, handle=HAND[h], data=f"val{a}{h}-{n}".encode())
    if letter in ("W", "N"):
        return mk(name, address=addr, handle=HAND[h])
    if letter == "E":
        # error codes: a common one, and one above 255 (ESP_GATT_CONN_NONE = 0x101) for the second address
        return mk(name, address=addr, handle=HAND[h], error=133 if a == 1 else 0x101)
    if letter == "D":
        return mk(name, address=addr, handle=HAND[h], data=f"ntf{a}{h}-{n}".encode())
    if letter in ("P", "U"):
        return mk(name, address=addr, paired=True, error=0) if letter == "P" else mk(name, address=addr, success=True, error=0)
    if letter == "K":
        return mk(name, address=addr, success=True, error=0)
    if letter == "S":
        m = mk(name, address=addr)
        s = m.services.add()
        s.uuid.extend([0x1800 + n, 0x800000805F9B34FB])
        s.handle = n + 1
        return m
    if letter == "SD":
        return mk(name, address=addr)
    if letter == "CU":
        return mk(name, address=addr, connected=True, mtu=23 + n, error=0)
    if letter == "CD":
        return mk(name, address=addr, connected=False, mtu=0, error=133 if a == 1 else 0x100)
    raise HarnessError(atom)


def menu_for(ops: list[str]) -> tuple[list[str], list[str]]:
    """(all atoms, atoms that match at least one operation) - canonical order."""
    atoms: list[str] = []
    matching: list[str] = []

    def add(x: str, m: bool = False) -> None:
        if x not in atoms:
            atoms.append(x)
        if m and x not in matching:
            matching.append(x)

    for op in ops:
        kind, a, h = parse_op(op)
        a2, h2 = 3 - a, 3 - h if h else 0
        if kind in GATT:
            x = GATT[kind][1]
            add(f"{x}:{a}.{h}", True)
            add(f"E:{a}.{h}", True)
            add(f"CD:{a}", True)
            add(f"{x}:{a}.{h2}")
            add(f"{x}:{a2}.{h}")
            add(f"E:{a}.{h2}")
            add(f"E:{a2}.{h}")
            add(f"CD:{a2}")
            if kind == "notify":
                add(f"D:{a}.{h}", True)
                add(f"D:{a}.{h2}")
                add(f"D:{a2}.{h}")
        elif kind in DEV:
            x = DEV[kind][0]
            add(f"{x}:{a}", True)
            add(f"CD:{a}", True)
            add(f"{x}:{a2}")
            add(f"CD:{a2}")
        elif kind == "disc":
            add(f"CD:{a}", True)
            add(f"CU:{a}")
            add(f"CD:{a2}")
        elif kind == "conn":
            add(f"CU:{a}", True)
            add(f"CD:{a}", True)
            add(f"CU:{a2}")
            add(f"CD:{a2}")
        elif kind == "svc":
            add(f"S:{a}", True)
            add(f"SD:{a}", True)
            add(f"E:{a}.1", True)
            add(f"CD:{a}", True)
            add(f"S:{a2}")
            add(f"SD:{a2}")
            add(f"E:{a2}.1")
    return atoms, matching


class RefOp:
    """Reference state machine of one operation."""

    def __init__(self, op: str, start: float) -> None:
        self.op = op
        self.kind, self.a, self.h = parse_op(op)
        self.start = start
        if self.kind in GATT:
            self.timeout = GATT[self.kind][2]
        elif self.kind in DEV:
            self.timeout = DEV[self.kind][2]
        elif self.kind == "disc":
            self.timeout = DISC_TIMEOUT
        elif self.kind == "conn":
            self.timeout = CONN_TIMEOUT
        else:
            self.timeout = 30.0  # get-services has no timeout parameter
        self.due = start + self.timeout
        self.state = "pending"  # pending | ok | gatt_error | dropped | timeout | closed | disc_wait (conn only)
        self.end_time: float | None = None
        self.value: Any = None
        self.services: list[int] = []
        self.disc_due: float | None = None
        self.cb_expected: list[Any] = []  # connection-state / notify-data callbacks this operation's subscription must produce
        self.sub_live = False  # persistent subscription (successful connect / notify) still registered
        self.finned = False
        self.returned = False  # the awaiting task has resumed and returned/raised
        self.cb_optional: set[int] = set()  # indices of cb_expected that may or may not happen

    def end(self, state: str, now: float, value: Any = None) -> None:
        self.state = state
        self.end_time = now
        self.value = value

    def on_atom(self, atom: str, n: int, now: float) -> None:
        letter, a, h = parse_atom(atom)
        k = self.kind
        if self.state not in ("pending", "disc_wait"):
            # finished; a live persistent subscription still produces callbacks
            if self.sub_live and self.state == "ok":
                if k == "conn" and letter in ("CU", "CD") and a == self.a:
                    m = atom_message(atom, n)
                    self.cb_expected.append((m.connected, m.mtu, m.error))
                    if letter == "CD" and self.returned:
                        # the harness's state callback drops its own subscription when the device is reported disconnected
                        self.sub_live = False
                        self.finned = True
                if k == "notify" and letter == "D" and a == self.a and h == self.h:
                    self.cb_expected.append((HAND[h], atom_message(atom, n).data))
            elif k == "notify" and not self.returned and letter == "D" and a == self.a and h == self.h:
                # start-notify already failed but its coroutine has not resumed yet (same loop turn): the data callback is
                # still registered; whether this notification is delivered is not constrained
                self.cb_optional.add(len(self.cb_expected))
                self.cb_expected.append((HAND[h], atom_message(atom, n).data))
            return
        if self.state == "disc_wait":
            if letter == "CD" and a == self.a:
                self.end("timeout", now)
            return
        if k in GATT:
            if letter == GATT[k][1] and a == self.a and h == self.h:
                self.end("ok", now, atom_message(atom, n).data if letter == "R" else None)
                if k == "notify":
                    self.sub_live = True
            elif letter == "E" and a == self.a and h == self.h:
                self.end("gatt_error", now)
            elif letter in ("CU", "CD") and a == self.a:
                self.end("dropped", now)
            elif k == "notify" and letter == "D" and a == self.a and h == self.h:
                # the data callback is registered before the request is written
                self.cb_expected.append((HAND[h], atom_message(atom, n).data))
        elif k in DEV:
            if letter == DEV[k][0] and a == self.a:
                self.end("ok", now)
            elif letter in ("CU", "CD") and a == self.a:
                self.end("dropped", now)
        elif k == "disc":
            if letter == "CD" and a == self.a:
                self.end("ok", now)
        elif k == "svc":
            if a != self.a:
                return
            if letter == "S":
                self.services.append(atom_message(atom, n).services[0].handle)
            elif letter == "SD":
                self.end("ok", now, list(self.services))
            elif letter == "E":
                self.end("gatt_error", now)
            elif letter in ("CU", "CD"):
                self.end("dropped", now)
        elif k == "conn":
            if letter in ("CU", "CD") and a == self.a:
                m = atom_message(atom, n)
                self.cb_expected.append((m.connected, m.mtu, m.error))
                self.end("ok", now)
                self.sub_live = True

    def on_timer(self, when: float, now: float) -> None:
        if self.state == "pending" and abs(self.due - when) < 1e-9:
            if self.kind == "conn":
                self.state = "disc_wait"
                self.disc_due = now + CONN_DISC_TIMEOUT
            else:
                self.end("timeout", now)
        elif self.state == "disc_wait" and self.disc_due is not None and abs(self.disc_due - when) < 1e-9:
            self.end("timeout", now)
        elif self.state == "closed_wait" and abs(self.due - when) < 1e-9:
            self.end("closed", now)

    def on_close(self, now: float) -> None:
        if self.kind == "conn" and self.state == "pending":
            # a device connect does not watch the API connection: it notices at its own timeout, when the disconnect it wants
            # to issue is refused
            self.state = "closed_wait"
        elif self.state in ("pending", "disc_wait"):
            self.end("closed", now)
        self.sub_live = False

    def handlers(self) -> dict[str, int]:
        """Message types this operation must have registered right now."""
        k = self.kind
        out: dict[str, int] = {}

        def inc(n: str) -> None:
            out[n] = out.get(n, 0) + 1

        if self.state == "pending":
            if k in GATT:
                inc(ATOM_MSG[GATT[k][1]])
                inc("BluetoothGATTErrorResponse")
                inc("BluetoothDeviceConnectionResponse")
                if k == "notify":
                    inc("BluetoothGATTNotifyDataResponse")
            elif k in DEV:
                inc(ATOM_MSG[DEV[k][0]])
                inc("BluetoothDeviceConnectionResponse")
            elif k == "disc":
                inc("BluetoothDeviceConnectionResponse")
            elif k == "svc":
                for n in ("BluetoothGATTGetServicesResponse", "BluetoothGATTGetServicesDoneResponse", "BluetoothGATTErrorResponse",
                          "BluetoothDeviceConnectionResponse"):
                    inc(n)
            elif k == "conn":
                inc("BluetoothDeviceConnectionResponse")
        elif self.state == "disc_wait":
            inc("BluetoothDeviceConnectionResponse")
        elif self.sub_live:
            inc("BluetoothDeviceConnectionResponse" if k == "conn" else "BluetoothGATTNotifyDataResponse")
        return out

    def timers(self) -> int:
        return 1 if self.state in ("pending", "disc_wait", "closed_wait") else 0


class BleWorld(ConnWorld):
    def __init__(self) -> None:
        super().__init__(client=True, keepalive=1e6)
        self.ref: dict[str, RefOp] = {}
        self.viol: list[str] = []
        self.chunks: list[list[tuple[str, int]]] = []
        self.atom_n = 0
        self.cbs: dict[str, list[Any]] = {}
        self.base_handlers: dict[str, int] | None = None
        self.endings: set[str] = set()
        self.net.on_socket = self._hook
        self.loop._before_cb = self._before
        self.loop._after_cb = self._after
        self.ref_closed = False
        self.self_unsubbed: set[str] = set()
        self.armed = False
        self.ret_hook = self._ret
        self.disc_written: dict[str, float] = {}

    def _hook(self, s: Any) -> None:
        s.on_recv = self._on_recv
        s.on_send = self._on_send

    def _ret(self, name: str) -> None:
        if name in self.ref:
            self.ref[name].returned = True

    def connection(self) -> Any:
        return self.client._connection

    def is_open(self) -> bool:
        c = self.connection()
        return c is not None and c.is_connected

    def _on_recv(self, s: Any, item: Any) -> None:
        if not isinstance(item, (bytes, bytearray)) or not item or not self.chunks:
            return
        atoms = self.chunks.pop(0)
        if not self.is_open():
            return
        for atom, n in atoms:
            for r in self.ref.values():
                r.on_atom(atom, n, self.loop.time())

    def _on_send(self, s: Any, data: bytes) -> None:
        pass

    def _before(self, handle: Any) -> None:
        if isinstance(handle, events.TimerHandle) and timer_name(handle) == "handle_timeout":
            for r in self.ref.values():
                r.on_timer(handle._when, self.loop.time())

    def _after(self, handle: Any) -> None:
        if self.armed and not self.ref_closed and not self.is_open():
            self.ref_closed = True
            for r in self.ref.values():
                r.on_close(self.loop.time())

    def handler_table(self) -> dict[str, int] | None:
        c = self.connection()
        hs = getattr(c, "_message_handlers", None) if c is not None else None
        if hs is None:
            return None
        return {k.__name__: len(v) for k, v in hs.items() if len(v)}


def _subseq(a: list[Any], b: list[Any]) -> bool:
    it = iter(b)
    return all(any(x == y for y in it) for x in a)


class BleHarness:
    def __init__(self, ops: tuple[str, ...], late: tuple[str, ...], pairs: str) -> None:
        self.ops = list(ops)
        self.late = list(late)
        self.atoms, self.matching = menu_for(self.ops + self.late)
        if pairs == "matching":
            self.pairs = [(x, y) for x in self.matching for y in self.matching]
        elif pairs == "all":
            self.pairs = [(x, y) for x in self.atoms for y in self.atoms if x in self.matching or y in self.matching]
        else:
            self.pairs = []
        self.can_fp = True

    # --- start operations -------------------------------------------------------------------------
    def fresh(self) -> BleWorld:
        w = BleWorld()
        w.connect_fully()
        w.armed = True
        w.base_handlers = w.handler_table()
        for op in self.ops:
            self._start(w, op)
        w.drain()
        return w

    def _start(self, w: BleWorld, op: str) -> None:
        kind, a, h = parse_op(op)
        c = w.client
        addr = ADDR[a]
        hd = HAND.get(h, 0)
        before = len(w.sent_frames())
        w.ref[op] = RefOp(op, w.loop.time())
        w.cbs[op] = []
        cbs = w.cbs[op]
        if kind == "read":
            w.spawn(op, lambda: c.bluetooth_gatt_read(addr, hd, timeout=GATT["read"][2]))
        elif kind == "readd":
            w.spawn(op, lambda: c.bluetooth_gatt_read_descriptor(addr, hd, timeout=GATT["readd"][2]))
        elif kind == "write":
            w.spawn(op, lambda: c.bluetooth_gatt_write(addr, hd, b"\x01\x02", True, timeout=GATT["write"][2]))
        elif kind == "writed":
            w.spawn(op, lambda: c.bluetooth_gatt_write_descriptor(addr, hd, b"\x03", timeout=GATT["writed"][2]))
        elif kind == "notify":
            w.spawn(op, lambda: c.bluetooth_gatt_start_notify(addr, hd, lambda hh, data: cbs.append((hh, bytes(data))), timeout=GATT["notify"][2]))
        elif kind == "pair":
            w.spawn(op, lambda: c.bluetooth_device_pair(addr, timeout=DEV["pair"][2]))
        elif kind == "unpair":
            w.spawn(op, lambda: c.bluetooth_device_unpair(addr, timeout=DEV["unpair"][2]))
        elif kind == "clear":
            w.spawn(op, lambda: c.bluetooth_device_clear_cache(addr, timeout=DEV["clear"][2]))
        elif kind == "disc":
            w.spawn(op, lambda: c.bluetooth_device_disconnect(addr, timeout=DISC_TIMEOUT))
        elif kind == "svc":
            w.spawn(op, lambda: c.bluetooth_gatt_get_services(addr))
        elif kind == "conn":
            # the connection-state callback of a device that was reported disconnected drops its own subscription (re-entrancy)
            def on_state(conn: bool, mtu: int, err: int, _op: str = op) -> None:
                cbs.append((conn, mtu, err))
                if not conn and w.results.get(_op, ("",))[0] == "ok" and _op not in w.self_unsubbed:
                    w.self_unsubbed.add(_op)
                    w.results[_op][1]()

            w.spawn(op, lambda: c.bluetooth_device_connect(addr, on_state, timeout=CONN_TIMEOUT, disconnect_timeout=CONN_DISC_TIMEOUT))
        else:
            raise HarnessError(op)
        # the request on the wire: exactly one frame, right type, address and handle
        new = w.sent_frames()[before:]
        ids = env.proto_ids()
        names = [ids.get(t) for t, _ in new]
        want = GATT[kind][0] if kind in GATT else ("BluetoothGATTGetServicesRequest" if kind == "svc" else "BluetoothDeviceRequest")
        if names != [want]:
            w.viol.append(f"C16:request:{kind}: starting {op} wrote {names}, expected [{want}]")
            return
        m = getattr(env.pb(), want)()
        m.ParseFromString(new[0][1])
        if m.address != addr or (kind in GATT and m.handle != hd):
            w.viol.append(f"C16:request:{kind}: request of {op} carries address {m.address:#x} handle {getattr(m, 'handle', None)}")
        if want == "BluetoothDeviceRequest":
            rt = {"pair": 2, "unpair": 3, "clear": 6, "disc": 1, "conn": 0}[kind]
            if m.request_type != rt:
                w.viol.append(f"C16:request:{kind}: request type {m.request_type}, expected {rt}")
        if kind == "notify" and not m.enable:
            w.viol.append("C16:request:notify: enable flag not set")

    # --- exploration interface ------------------------------------------------------------------------
    def enabled(self, w: BleWorld) -> list[Any]:
        base: list[Any] = []
        s = w.sock
        open_ = s is not None and not s.closed and w.is_open()
        if open_:
            for op in self.late:
                if op not in w.tasks:
                    base.append(f"call:{op}")
            base += [f"m:{a}" for a in self.atoms]
            base += [f"m:{a}+{b}" for a, b in self.pairs]
            base.append("eof")
            for op, r in w.ref.items():
                if r.state == "ok" and r.sub_live and not r.finned and op in w.results:
                    base.append(f"fin:{op}")
        nt = w.loop.next_timer_at()
        if nt is not None and nt <= w.loop.time() + 200:
            base.append("time")
        out = list(base)
        # "not drained" variants only where the event schedules something (a foreign message wakes nobody up)
        match = set(self.matching)
        out += [["nd", b] for b in base if b == "eof" or (b.startswith("m:") and any(x in match for x in b[2:].split("+")))]
        return out

    def cost(self, label: Any) -> int:
        c = 0
        if isinstance(label, list):
            c += 1
            label = label[1]
        if label.startswith("m:") and "+" in label:
            c += 1
        return c

    def apply(self, w: BleWorld, label: Any) -> None:
        nd = False
        if isinstance(label, list):
            nd = True
            label = label[1]
        w.note("ev", ("nd:" if nd else "") + label)
        kind = "user"
        if label.startswith("call:"):
            self._start(w, label[5:])
        elif label.startswith("m:"):
            kind = "io"
            atoms = label[2:].split("+")
            tagged = []
            data = b""
            for a in atoms:
                w.atom_n += 1
                tagged.append((a, w.atom_n))
                data += w.dframe(atom_message(a, w.atom_n))
            w.chunks.append(tagged)
            w.io_chunk(w.sock, data)
        elif label == "eof":
            kind = "io"
            w.io_eof(w.sock)
        elif label.startswith("fin:"):
            op = label[4:]
            r = w.ref[op]
            r.finned = True
            r.sub_live = False
            val = w.results[op][1]
            if r.kind == "conn":
                w.self_unsubbed.add(op)
                val()
            else:
                val[1]()  # remove_callback (no traffic)
        elif label == "time":
            w.drain()
            w.advance_next_timer()
        else:
            raise HarnessError(label)
        if not nd:
            w.drain()
        elif kind == "io":
            w.step()

    # --- oracle -----------------------------------------------------------------------------------------
    def _check_op(self, w: BleWorld, op: str) -> list[str]:
        from aioesphomeapi.core import APIConnectionError, BluetoothConnectionDroppedError, BluetoothGATTAPIError, TimeoutAPIError

        v: list[str] = []
        r = w.ref[op]
        res = w.results.get(op)
        if res is None:
            return v
        kind, val, t = res
        got = kind if kind != "exc" else type(val).__name__
        w.endings.add(f"{r.kind}:{got}")
        if r.state in ("pending", "disc_wait", "closed_wait"):
            v.append(f"C16:early:{r.kind}: {op} ended ({got}) although nothing addressed to it arrived and its timeout has not expired")
            return v
        want_exc = {"gatt_error": BluetoothGATTAPIError, "dropped": BluetoothConnectionDroppedError, "timeout": TimeoutAPIError}
        if r.state == "ok":
            if kind != "ok":
                v.append(f"C16:outcome:{r.kind}: {op} ended {got} although its own response arrived first")
            elif r.kind in ("read", "readd") and bytes(val) != r.value:
                v.append(f"C16:value:{r.kind}: {op} returned {bytes(val)!r}, its response carried {r.value!r}")
            elif r.kind == "svc" and [s.handle for s in val.services] != r.value:
                v.append(f"C16:value:svc: {op} returned services {[s.handle for s in val.services]}, reference {r.value}")
        elif r.state in want_exc:
            if kind != "exc" or type(val) is not want_exc[r.state]:
                v.append(f"C16:outcome:{r.kind}: {op} ended {got}, reference says {r.state} ({want_exc[r.state].__name__})")
        elif r.state == "closed":
            if kind != "exc" or not isinstance(val, APIConnectionError) or isinstance(val, (TimeoutAPIError, BluetoothGATTAPIError, BluetoothConnectionDroppedError)):
                v.append(f"C16:outcome:{r.kind}: {op} ended {got} although the API connection was lost while it was waiting")
        if not v and r.end_time is not None and abs(t - r.end_time) > 1e-9:
            v.append(f"C16:time:{r.kind}: {op} ended at {t}, reference at {r.end_time} ({r.state})")
        return v

    def verdict(self, w: BleWorld) -> list[str]:
        v = list(w.viol)
        for op in list(w.results):
            if op in w.ref:
                v += self._check_op(w, op)
        # callbacks of persistent subscriptions: never more than the reference allows, and equal once the loop is quiet
        for op, r in w.ref.items():
            got = w.cbs.get(op, [])
            exp = r.cb_expected
            if r.cb_optional:
                must = [e for i, e in enumerate(exp) if i not in r.cb_optional]
                if _subseq(got, exp) and (w.loop.busy() or _subseq(must, got)):
                    continue
            if got != exp[: len(got)] or (not w.loop.busy() and got != exp):
                v.append(f"C16:callbacks:{r.kind}: {op} callback calls {got} != expected {exp}")
        if not w.loop.busy():
            for op, r in w.ref.items():
                if r.state not in ("pending", "disc_wait", "closed_wait") and w.pending(op):
                    v.append(f"C16:stuck:{r.kind}: {op} still pending although the reference ended it ({r.state})")
            v += self._leftovers(w)
            v += self._disconnect_on_timeout(w)
        return v

    def _disconnect_on_timeout(self, w: BleWorld) -> list[str]:
        """A device connect that timed out has a DISCONNECT request for its address on the wire, written at the timeout instant."""
        v = []
        for op, r in w.ref.items():
            if r.kind != "conn" or r.disc_due is None:
                continue
            t_to = r.disc_due - CONN_DISC_TIMEOUT
            found = False
            ids = env.proto_name_to_id()
            for s in w.net.sockets:
                for ts, data in s.sent:
                    if abs(ts - t_to) > 1e-9:
                        continue
                    from .. import wire

                    for _, typ, payload in wire.frame_ends(data):
                        if typ == ids["BluetoothDeviceRequest"]:
                            m = env.pb().BluetoothDeviceRequest()
                            m.ParseFromString(payload)
                            if m.address == ADDR[r.a] and m.request_type == 1:
                                found = True
            if not found and not w.ref_closed:
                v.append(f"C16:connect-timeout:no-disconnect: {op} timed out at {t_to} but no disconnect request for its address was written then")
            res = w.results.get(op)
            if res is not None and res[2] < t_to - 1e-9:
                v.append(f"C16:connect-timeout:raised-early: {op} raised at {res[2]}, before its timeout {t_to}")
        return v

    def _leftovers(self, w: BleWorld) -> list[str]:
        v = []
        table = w.handler_table()
        if table is None or w.base_handlers is None:
            return v
        if w.ref_closed:
            return v
        exp = dict(w.base_handlers)
        for r in w.ref.values():
            for k, n in r.handlers().items():
                exp[k] = exp.get(k, 0) + n
        if table != exp:
            diff = {k: (table.get(k, 0), exp.get(k, 0)) for k in set(table) | set(exp) if table.get(k, 0) != exp.get(k, 0)}
            v.append(f"C16:leftover-handler: handler table differs from baseline + outstanding operations + live subscriptions: (actual, expected) {diff}")
        n_to = [timer_name(h) for h in w.loop.live_timers()].count("handle_timeout")
        want = sum(r.timers() for r in w.ref.values())
        if n_to != want:
            v.append(f"C16:leftover-timer: {n_to} timeout timers armed, {want} operations outstanding")
        return v

    def finish(self, w: BleWorld) -> list[str]:
        w.drain()
        v = self.verdict(w)
        if v:
            return v
        w.run_timers(w.loop.time() + 80.0)
        v = self.verdict(w)
        for op in w.ref:
            if w.pending(op):
                v.append(f"C16:hang: {op} never ended")
        return v

    def outcome(self, w: BleWorld) -> str:
        return ",".join(f"{n}={w.outcome(n)}/{w.ref[n].state}" for n in sorted(w.ref))

    def tags(self, w: BleWorld) -> list[str]:
        return ["end:" + e for e in w.endings]

    def observe(self, w: BleWorld) -> Any:
        return list(w.log)

    def fingerprint(self, w: BleWorld) -> Any:
        if not self.can_fp:
            return None
        try:
            c = fingerprint.Canon(w.loop)
            fp = (
                c.obj(w.connection()) if w.connection() is not None else None,
                fingerprint.loop_canon(w.loop),
                tuple((n, fingerprint.task_point(t)) for n, t in sorted(w.tasks.items())),
                tuple((n, r[0], type(r[1]).__name__) for n, r in sorted(w.results.items())),
                tuple(c(s) for s in w.net.sockets),
                tuple((n, r.state, repr(r.value), tuple(r.services), len(r.cb_expected), r.sub_live, r.finned,
                       round(r.due - w.loop.time(), 6), None if r.disc_due is None else round(r.disc_due - w.loop.time(), 6))
                      for n, r in sorted(w.ref.items())),
                tuple(tuple(x) for x in w.chunks),
                tuple((n, len(x)) for n, x in sorted(w.cbs.items())),
                w.ref_closed,
            )
            return hash(fp)
        except fingerprint.CannotCanon:
            self.can_fp = False
            return None

    def close(self, w: BleWorld) -> None:
        w.close()


def cancel_sweep(res: Result, only: str | None = None) -> int:
    """'Every finished operation leaves nothing subscribed' when the *caller* ends it: every operation kind cancelled while it waits, in
    the loop turn in which its completing message has just been read, and in the turn in which its own timeout has just fired.  However
    the call ends, afterwards (and after using whatever unsubscribe handle it returned) the handler table and the timers are as before
    the call, and later messages for that address reach no callback of it."""
    n = 0
    ops = {"conn@1": "CU:1", "read@1.1": "R:1.1", "readd@1.1": "R:1.1", "write@1.1": "W:1.1", "writed@1.1": "W:1.1", "notify@1.1": "N:1.1",
           "pair@1": "P:1", "unpair@1": "U:1", "clear@1": "K:1", "disc@1": "CD:1", "svc@1": "SD:1", "conn@2": "CD:2"}
    h0 = BleHarness((), (), "none")
    w0 = h0.fresh()
    try:
        base_timers = sorted(timer_name(x) for x in w0.loop.live_timers())
    finally:
        h0.close(w0)
    for op, done_atom in ops.items():
        for timing in ("while-waiting", "completing-message-just-read", "own-timeout-just-fired", "foreign-message-just-read"):
            key = f"cancel:{op}:{timing}"
            if only is not None and key != only:
                continue
            h = BleHarness((op,), (), "none")
            w = h.fresh()
            try:
                kind, a, hh = parse_op(op)
                r = w.ref[op]
                if timing == "completing-message-just-read":
                    h.apply(w, ["nd", "m:" + done_atom])
                elif timing == "foreign-message-just-read":
                    h.apply(w, ["nd", f"m:CU:{3 - a}"])
                elif timing == "own-timeout-just-fired":
                    w.loop.advance_to(r.due)
                    w.step()
                w.cancel(op)
                w.drain()
                w.run_timers(w.loop.time() + 0.5)
                n += 1
                d = {"harness": "c16-cancel", "key": key}
                out = w.results.get(op)
                if out is None and not (kind == "conn" and timing == "own-timeout-just-fired"):
                    res.add(key, f"C16:cancel:{op} cancelled ({timing}) but the call never ended", d)
                    continue
                if out is None:
                    # a device connect whose timeout fired first goes on to disconnect the peripheral; let that run its course
                    w.run_timers(w.loop.time() + 80.0)
                    out = w.results.get(op)
                    if out is None:
                        res.add(key, f"C16:cancel:{op} cancelled ({timing}) but the call never ended", d)
                        continue
                if out[0] == "ok":
                    val = out[1]
                    try:
                        if kind == "conn" and callable(val):
                            val()
                        elif kind == "notify" and isinstance(val, tuple):
                            val[1]()
                    except Exception as e:  # noqa: BLE001
                        res.add(key, f"C16:cancel:the unsubscribe handle returned by {op} raised {type(e).__name__}: {e}", d)
                w.drain()
                table = w.handler_table()
                if w.is_open() and table is not None and table != w.base_handlers:
                    diff = {k: (table.get(k, 0), (w.base_handlers or {}).get(k, 0)) for k in set(table) | set(w.base_handlers or {})
                            if table.get(k, 0) != (w.base_handlers or {}).get(k, 0)}
                    res.add(key, f"C16:leftover-handler:{op} ended {w.outcome(op)} after the caller cancelled it ({timing}); handlers left registered "
                            f"(actual, baseline): {diff}", d)
                    continue
                timers = sorted(timer_name(x) for x in w.loop.live_timers())
                if timers != base_timers:
                    res.add(key, f"C16:leftover-timer:{op} ended {w.outcome(op)} after the caller cancelled it ({timing}); timers {timers}, baseline {base_timers}", d)
                    continue
                before = len(w.cbs[op])
                for atom in (f"CU:{a}", f"CD:{a}") + ((f"D:{a}.{hh}",) if hh else ()):
                    h.apply(w, "m:" + atom)
                if len(w.cbs[op]) != before:
                    res.add(key, f"C16:leftover-callback:{op} ended {w.outcome(op)} after the caller cancelled it ({timing}), yet its callback was still "
                            f"invoked by later messages: {w.cbs[op][before:]}", d)
            finally:
                h.close(w)
    return n


def refused_call_sweep(res: Result) -> int:
    """A call the library cannot even encode (handle or address outside the wire type, wrong Python type) raises - and, like every
    finished operation, leaves nothing subscribed and no timer behind."""
    n = 0
    h = BleHarness((), (), "none")
    bad_values: list[tuple[str, Any, Any]] = [("handle=2**32", ADDR[1], 2**32), ("handle=-1", ADDR[1], -1), ("address=2**64", 2**64, HAND[1]),
                                               ("address=-5", -5, HAND[1]), ("handle='7'", ADDR[1], "7"), ("address=None", None, HAND[1])]
    for label, addr, hd in bad_values:
        w = h.fresh()
        try:
            c = w.client
            base_timers = sorted(timer_name(x) for x in w.loop.live_timers())
            calls = {
                "start_notify": lambda: c.bluetooth_gatt_start_notify(addr, hd, lambda hh, data: None),
                "read": lambda: c.bluetooth_gatt_read(addr, hd),
                "write": lambda: c.bluetooth_gatt_write(addr, hd, b"x", True),
                "read_descriptor": lambda: c.bluetooth_gatt_read_descriptor(addr, hd),
                "device_connect": lambda: c.bluetooth_device_connect(addr, lambda a, b, cc: None, timeout=5.0),
                "device_disconnect": lambda: c.bluetooth_device_disconnect(addr),
                "get_services": lambda: c.bluetooth_gatt_get_services(addr),
            }
            for name, fn in calls.items():
                if name in ("device_connect", "device_disconnect", "get_services") and label.startswith("handle"):
                    continue
                w.spawn(f"{name}:{label}", fn)
                w.drain()
                n += 1
                key = f"refused:{name}:{label}"
                r = w.results.get(f"{name}:{label}")
                if r is None:
                    w.cancel(f"{name}:{label}")  # the value was accepted after all (not a refusal): abandon the call
                    w.drain()
                    continue
                if r[0] != "exc":
                    continue
                table = w.handler_table()
                if w.is_open() and table is not None and table != w.base_handlers:
                    diff = {k: (table.get(k, 0), (w.base_handlers or {}).get(k, 0)) for k in set(table) | set(w.base_handlers or {})
                            if table.get(k, 0) != (w.base_handlers or {}).get(k, 0)}
                    res.add(key, f"C16:leftover-handler:{name}({label}) was refused with {type(r[1]).__name__}, but handlers stay registered (actual, baseline): {diff}",
                            {"harness": "c16-refused", "key": key})
                    break
                timers = sorted(timer_name(x) for x in w.loop.live_timers())
                if timers != base_timers:
                    res.add(key, f"C16:leftover-timer:{name}({label}) was refused with {type(r[1]).__name__}, timers {timers}, baseline {base_timers}",
                            {"harness": "c16-refused", "key": key})
                    break
        finally:
            h.close(w)
    return n


def reentrancy_sweep(res: Result, only: str | None = None) -> int:
    """An operation started from inside a Bluetooth callback - while a message of the very type the new operation subscribes to is being
    dispatched: the new operation and every other pending one (other address included) complete with their own responses."""
    from ..world import mk as _mk

    n = 0
    for starter in ("conn-state-callback", "notify-data-callback"):
        for inner in ("read", "write", "notify", "disc"):
            key = f"reentrant:{starter}:{inner}"
            if only is not None and key != only:
                continue
            h = BleHarness(("read@2.1",), (), "none")
            w = h.fresh()
            try:
                c = w.client
                a1, hd = ADDR[1], HAND[1]
                started: list[str] = []

                def start_inner() -> None:
                    if started:
                        return
                    started.append(inner)
                    if inner == "read":
                        w.spawn("inner", lambda: c.bluetooth_gatt_read(a1, hd, timeout=20.0))
                    elif inner == "write":
                        w.spawn("inner", lambda: c.bluetooth_gatt_write(a1, hd, b"\x01", True, timeout=20.0))
                    elif inner == "notify":
                        w.spawn("inner", lambda: c.bluetooth_gatt_start_notify(a1, HAND[2], lambda hh, data: None, timeout=20.0))
                    else:
                        w.spawn("inner", lambda: c.bluetooth_device_disconnect(a1, timeout=20.0))

                if starter == "conn-state-callback":
                    w.spawn("outer", lambda: c.bluetooth_device_connect(a1, lambda conn, mtu, err: start_inner(), timeout=20.0, disconnect_timeout=5.0))
                    trigger = _mk("BluetoothDeviceConnectionResponse", address=a1, connected=True, mtu=23, error=0)
                else:
                    w.spawn("outer", lambda: c.bluetooth_gatt_start_notify(a1, hd, lambda hh, data: start_inner(), timeout=20.0))
                    w.drain()
                    w.io_chunk(w.sock, w.dframe(_mk("BluetoothGATTNotifyResponse", address=a1, handle=hd)))
                    trigger = _mk("BluetoothGATTNotifyDataResponse", address=a1, handle=hd, data=b"x")
                w.drain()
                w.io_chunk(w.sock, w.dframe(trigger))
                w.drain()
                answers = {
                    "read": _mk("BluetoothGATTReadResponse", address=a1, handle=hd, data=b"inner"),
                    "write": _mk("BluetoothGATTWriteResponse", address=a1, handle=hd),
                    "notify": _mk("BluetoothGATTNotifyResponse", address=a1, handle=HAND[2]),
                    "disc": _mk("BluetoothDeviceConnectionResponse", address=a1, connected=False, mtu=0, error=0),
                }
                if w.is_open():
                    w.io_chunk(w.sock, w.dframe(answers[inner]))
                    w.drain()
                if w.is_open():
                    w.io_chunk(w.sock, w.dframe(_mk("BluetoothGATTReadResponse", address=ADDR[2], handle=HAND[1], data=b"other")))
                    w.drain()
                n += 1
                d = {"harness": "c16-reentrant", "key": key}
                if not started:
                    res.add(key, f"C16:reentrant:the {starter} was never invoked", d)
                    continue
                bad = [f"{nm}={w.outcome(nm)}" for nm in ("outer", "inner", "read@2.1") if w.outcome(nm) != "ok"]
                if bad or not w.is_open():
                    res.add(key, f"C16:reentrant:{inner} started from inside the {starter}: {bad or 'all ok'}; connection {'up' if w.is_open() else 'lost'} "
                            f"(loop errors: {[str(e.get('exc'))[:80] for e in w.loop.errors[-1:]]})", d)
            finally:
                h.close(w)
    return n


def debug_toggle_sweep(res: Result, only: str | None = None) -> int:
    """Debug logging is switched on (or off) on the live client while operations are outstanding - applications do that when the log level
    changes.  Each operation still ends with its own outcome: every matching atom of every operation kind, for both directions."""
    from .. import world as _world

    n = 0
    ops = ("conn@1", "read@1.1", "readd@1.1", "write@1.1", "writed@1.1", "notify@1.1", "pair@1", "unpair@1", "clear@1", "disc@1", "svc@1")
    for op in ops:
        _atoms, matching = menu_for([op, "read@2.2"])
        for atom in matching:
            for direction in ("off->on", "on->off"):
                key = f"debug-toggle:{op}:{atom}:{direction}"
                if only is not None and key != only:
                    continue
                _world.DEFAULT_DEBUG[0] = direction == "on->off"
                try:
                    h = BleHarness((op, "read@2.2"), (), "none")
                    w = h.fresh()
                finally:
                    _world.DEFAULT_DEBUG[0] = False
                try:
                    w.client.set_debug(direction == "off->on")
                    _world.real_logging(direction == "off->on")
                    w._real_logging = True  # restore on close
                    h.apply(w, "m:" + atom)
                    w.drain()
                    v = h.verdict(w) or h.finish(w)
                    n += 1
                    if v:
                        res.add(key, f"{v[0]} [debug logging switched {direction} while the operations were outstanding]", {"harness": "c16-debug-toggle", "key": key})
                finally:
                    h.close(w)
    return n


def factory(ops: tuple[str, ...], late: tuple[str, ...], pairs: str) -> BleHarness:
    return BleHarness(ops, late, pairs)


CONFIGS: list[tuple[tuple[str, ...], tuple[str, ...]]] = [
    (("read@1.1", "read@1.2", "read@2.1"), ()),
    (("read@1.1", "write@1.1", "notify@1.1"), ()),
    (("conn@1", "read@2.1", "pair@1"), ()),
    (("notify@1.1", "notify@1.2", "read@1.1"), ()),
    (("svc@1", "read@1.1", "svc@2"), ()),
    (("pair@1", "unpair@2", "clear@1"), ()),
    (("writed@1.1", "readd@1.1", "disc@1"), ()),
    (("conn@1", "conn@2"), ("disc@2",)),
    (("read@1.1",), ("readd@1.1", "write@1.1")),
    # a lone subscriber of its message type that drops its own subscription from inside its callback
    (("conn@1",), ("read@2.1",)),
]


def run(tier: str, seed: int) -> Result:
    res = Result("C16", "model_checking")
    q = tier == "quick"
    total = Stats()
    budget = 150.0 if q else 2400.0
    t_end = time.monotonic() + budget
    per_cfg = []
    cfgs = [(o, l) for o, l in CONFIGS]
    for i, (ops, late) in enumerate(cfgs):
        depth, bound, pairs = (3, 1, "matching") if q else (4, 1, "all")
        left = max(5.0, (t_end - time.monotonic()) / min(3, len(cfgs) - i))  # most configurations finish far below their share: a hungry one may take a third of what is left
        st = explore_parallel(factory, (ops, late, pairs), depth=depth, bound=bound, budget_s=left, split_depth=1)
        per_cfg.append({"operations": list(ops), "late_calls": list(late), "depth": depth, "deviation_bound": bound, "executions": st.executions,
                        "states": st.states, "transitions": st.transitions, "time_capped": st.time_capped})
        for v in st.violations:
            clause = v["violated"][0]
            kind = ":".join(clause.split(":")[:3])[:60].strip()
            res.add(f"{kind}", clause, {"harness": "c16", "ops": list(ops), "late": list(late), "pairs": pairs, "choices": v["choices"],
                                        "violated": v["violated"], "observations": v["observations"]})
        total.merge(st)
    n_cancel = cancel_sweep(res)
    n_reent = reentrancy_sweep(res)
    n_refused = refused_call_sweep(res)
    n_toggle = debug_toggle_sweep(res)
    ends = {k[4:] for k in total.tags if k.startswith("end:")}
    need = {"read:ok", "read:BluetoothGATTAPIError", "read:BluetoothConnectionDroppedError", "read:TimeoutAPIError", "conn:ok", "conn:TimeoutAPIError"}
    if not res.violations and not need <= ends:
        raise HarnessError(f"vacuous: endings seen {sorted(ends)}")
    res.coverage = {
        "states": total.states,
        "transitions": total.transitions,
        "traces_validated_against_impl": total.executions,
        "executions": total.executions,
        "endings_observed": sorted(ends),
        "caller_cancellation_runs": n_cancel,
        "reentrant_start_runs": n_reent,
        "refused_call_runs": n_refused,
        "debug_toggle_runs": n_toggle,
        "distinct_outcomes": len(total.outcomes),
        "configs": per_cfg,
        "exhaustive": not total.time_capped,
        "caps_hit": ["wall-clock budget"] if total.time_capped else [],
        "samples": total.samples[:3],
    }
    res.assumptions = [
        "the reference consumes device messages and timer expiries in the order the loop processed them; the first message addressed to an operation decides it",
        "a GATT error or a response is addressed to every pending operation with that address and handle (a read and a descriptor read on one handle share responses)",
        "get-services treats a GATT error for its address (any handle) and a connection change for its address as its own failure",
        "a timed-out device connect: disconnect request for its address written at the timeout instant, TimeoutAPIError when the disconnect is confirmed "
        "or 20 s later; its connection-state callback is not invoked after the timeout",
        "caller-side cancellation is not part of the exploration alphabet; a separate sweep cancels every operation kind at three instants "
        "(waiting / completing message just read / own timeout just fired) and audits what is left",
        "subscription audit reads the connection's handler table (skipped if unreadable)",
    ]
    return res


def replay(rp: dict[str, Any]) -> bool:
    d = rp["detail"]
    if d.get("harness") == "c16-refused":
        r = Result("C16", "model_checking")
        refused_call_sweep(r)
        bad = [v for v in r.violations if v.key == d["key"]]
        print(d["key"], "->", [v.clause for v in bad] or "holds")
        return not bad
    if d.get("harness") == "c16-reentrant":
        r = Result("C16", "model_checking")
        reentrancy_sweep(r, only=d["key"])
        print(d["key"], "->", [v.clause for v in r.violations] or "holds")
        return not r.violations
    if d.get("harness") == "c16-debug-toggle":
        r = Result("C16", "model_checking")
        debug_toggle_sweep(r, only=d["key"])
        print(d["key"], "->", [v.clause for v in r.violations] or "holds")
        return not r.violations
    if d.get("harness") == "c16-cancel":
        r = Result("C16", "model_checking")
        cancel_sweep(r, only=d["key"])
        print(d["key"], "->", [v.clause for v in r.violations] or "holds")
        return not r.violations
    h = factory(tuple(d["ops"]), tuple(d["late"]), d["pairs"])
    w = h.fresh()
    try:
        v: list[str] = []
        for lab in d["choices"]:
            h.apply(w, lab)
            v = h.verdict(w)
            if v:
                break
        else:
            v = h.finish(w)
        for line in w.log:
            print(line)
        print("violated:", v)
        return not v
    finally:
        h.close(w)
