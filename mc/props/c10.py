"""C10 - keepalive: ping only when idle; a silent peer is dropped in (5.5K, 6.5K], a live one never.

Schedule enumeration under a controlled clock: for every keepalive value K and every set of at most n device-message arrivals on
the grid K/4 over 12 K (every kind, and both processing orders whenever an arrival coincides with a timer), the real connection is
driven timer by timer; the virtual times of the PingRequest frames on the wire and the instant/cause of the close must equal the
reference model's (DESIGN.md §9, 'Keepalive').
"""

from __future__ import annotations

import itertools
import multiprocessing as mp
import os
from typing import Any

from .. import env, wire
from ..evidence import Result
from ..vloop import HarnessError
from ..world import ConnWorld, mk, msg_id

KINDS = ("PRESP", "ST", "PR", "UK")
COUNTS = {"PRESP": True, "ST": True, "PR": True, "UK": False, "STP": True}  # does the arrival count as a sign of life?
GRID = 4
PERIODS = 12
RATIO = 4.5


def frame(w: ConnWorld, kind: str) -> bytes:
    if kind == "PRESP":
        return w.dframe(mk("PingResponse"))
    if kind == "ST":
        return w.dframe(mk("SensorStateResponse", key=3, state=0.5))
    if kind == "PR":
        return w.dframe(mk("PingRequest"))
    if kind == "STP":
        # a read that holds a complete state message followed by the header and the first part of a long message; the rest of
        # the long message comes with the next such read.  The complete message counts for the interval in which it arrived.
        tail = getattr(w, "_c10_tail", b"")
        big = w.dframe(mk("SubscribeLogsResponse", level=3, message=b"l" * 600))
        w._c10_tail = big[40:]  # type: ignore[attr-defined]
        return tail + w.dframe(mk("SensorStateResponse", key=3, state=0.5)) + big[:40]
    return wire.encode_frame(9999, b"zz")


class Ref:
    def __init__(self, t0: float, k: float) -> None:
        self.k = k
        self.quiet = True
        self.deadline: float | None = None
        self.tick = t0 + k
        self.pings: list[float] = []
        self.dead_at: float | None = None
        self.last_life = t0
        self.last_life_before_tick = False

    def on_msg(self, now: float, kind: str, before_simultaneous_timer: bool) -> None:
        if self.dead_at is not None or not COUNTS[kind]:
            return
        self.quiet = False
        self.deadline = None
        self.last_life = now
        self.last_life_before_tick = before_simultaneous_timer and abs(now - self.tick) < 1e-6

    def on_timer(self, now: float, due: float | None = None) -> None:
        """A timer that was due at ``due`` runs at ``now`` (later than due when the loop was blocked)."""
        if self.dead_at is not None:
            return
        due = now if due is None else due
        if self.deadline is not None and abs(due - self.deadline) < 1e-6:
            self.dead_at = now
            return
        if abs(due - self.tick) < 1e-6:
            if self.quiet:
                self.pings.append(now)
                if self.deadline is None:
                    self.deadline = now + RATIO * self.k
            self.quiet = True
            self.tick = now + self.k

    def next_event(self) -> float:
        return min(self.tick, self.deadline if self.deadline is not None else float("inf"))


def run_schedule(kspec: Any, arrivals: tuple[tuple[float, str, str], ...], periods: int = PERIODS,
                 late: tuple[tuple[int, float], ...] = ()) -> dict[str, Any]:
    """arrivals: sorted tuple of (slot, kind, order) with order in {'io', 'timer'} (only matters on ties)."""
    default = kspec == "default"
    dbg = isinstance(kspec, str) and kspec.startswith("debug:")
    if dbg:
        kspec = float(kspec[6:])  # the same schedule with debug logging requested on the connection
    slow = 0.0
    if isinstance(kspec, str) and kspec.startswith("slow:"):
        # a device that takes slow*K to answer the hello: "established" is when the connect phase completed, not when it began
        _, sl, kk = kspec.split(":")
        slow, kspec = float(sl), float(kk)
    reqdue = isinstance(kspec, str) and kspec.startswith("reqdue:")
    if reqdue:
        # the pending request's own timeout expires a hair before the first pong deadline and the loop, briefly blocked, runs both
        # timers in one iteration: the request has just been failed (its task has not resumed yet) when the connection is declared dead
        kspec = float(kspec[7:])
    stopraises = isinstance(kspec, str) and kspec.startswith("stopraises:")
    if stopraises:
        kspec = float(kspec[11:])  # the application's stop callback raises: the waiters are told all the same, everything is released
    noname = isinstance(kspec, str) and kspec.startswith("noname:")
    if noname:
        kspec = float(kspec[7:])  # a device that announces no name in its hello (the field is optional)
    w = ConnWorld(client=default, keepalive=None if default else float(kspec), debug=dbg, **({"device_name": ""} if noname else {}))
    try:
        stops: list[tuple[float, bool]] = []
        if default:
            async def on_stop(expected: bool) -> None:
                stops.append((w.loop.time(), bool(expected)))

            w.spawn("connect", lambda: w.client.connect(on_stop=on_stop, login=True))
            w.drain()
            w.io_connect(w.sock, 0)
            w.drain()
            w.io_chunk(w.sock, w.dframe(w.hello_resp()) + w.dframe(w.connect_resp()))
            w.drain()
            if w.outcome("connect") != "ok":
                raise HarnessError(f"connect failed {w.results}")
            conn = w.client._connection
            k = 20.0 if not hasattr(w.client, "_params") else float(w.client._params.keepalive)
        elif slow:
            k = float(kspec)
            w.do_start()
            w.do_tcp_ok()
            w.do_finish_call()
            w.loop.advance_to(w.loop.time() + slow * k)
            w.drain()
            w.do_handshake()
            w.do_hello()
            if w.outcome("finish") != "ok":
                raise HarnessError(f"slow connect failed {w.results}")
            conn = w.conn
        else:
            w.connect_fully()
            conn = w.conn
            k = float(kspec)
        w.stop_raises = stopraises
        t0 = w.loop.time()
        sock = w.sock
        assert sock is not None
        n_before = len(sock.sent)
        # a pending request observes the error class of the close; its own timer is far beyond the horizon
        req = mk("DeviceInfoRequest")
        rtype = getattr(env.pb(), "DeviceInfoResponse")
        req_timeout = (1.0 + RATIO) * k - 1e-4 * k if reqdue else 1e5
        w.spawn("req", lambda: conn.send_message_await_response(req, rtype, req_timeout))
        n_before = len(sock.sent)
        ref = Ref(t0, k)
        horizon = t0 + periods * k
        queue = list(arrivals)
        closed_at: float | None = None

        def timers_next() -> float:
            ts = [h._when for h in w.loop.live_timers() if h._when < t0 + 5e4]
            return min(ts) if ts else float("inf")

        late_map = dict(late)  # ordinal of the timer event -> lateness as a fraction of K (the loop was blocked that long)
        timer_no = 0
        was_late = False
        guard = 0
        while True:
            guard += 1
            if guard > 10000:
                raise HarnessError("schedule does not end")
            nt = timers_next()
            na = t0 + queue[0][0] * k / GRID if queue else float("inf")
            nxt = min(nt, na)
            if nxt >= horizon or conn.connection_state.name == "CLOSED":
                break
            if na < nt:
                slot, kind, order = queue.pop(0)
                w.loop.advance_to(na)
                # the reference's own next event must not have been skipped by the implementation
                w.io_chunk(sock, frame(w, kind))
                w.drain()
                ref.on_msg(na, kind, False)
            elif nt < na:
                actual = nt
                d = late_map.get(timer_no)
                timer_no += 1
                others = sorted(h._when for h in w.loop.live_timers() if h._when > nt + 1e-9)
                room = min(na, others[0] if others else float("inf"))
                if d is not None and nt + d * k < room - 1e-6:
                    actual = nt + d * k  # no other timer or arrival falls into the blocked stretch
                    was_late = True
                if reqdue and others and others[0] - nt < 2e-4 * k and others[0] < na:
                    # the loop is blocked for a hair: this timer and the next one are both due when it looks at the clock again
                    actual = others[0]
                    w.loop.advance_to(actual)
                    w.drain()
                    ref.on_timer(actual, nt)
                    ref.on_timer(actual, others[0])
                    timer_no += 1
                else:
                    w.loop.advance_to(actual)
                    w.drain()
                    ref.on_timer(actual, nt)
            else:
                slot, kind, order = queue.pop(0)
                w.loop.advance_to(nt)
                if order == "io":
                    w.io_chunk(sock, frame(w, kind))  # same iteration: I/O callbacks run before due timers
                    w.drain()
                    ref.on_msg(nt, kind, True)
                    ref.on_timer(nt)
                else:
                    w.drain()
                    ref.on_timer(nt)
                    if conn.connection_state.name != "CLOSED":
                        w.io_chunk(sock, frame(w, kind))
                        w.drain()
                        ref.on_msg(nt, kind, False)
            if conn.connection_state.name == "CLOSED" and closed_at is None:
                closed_at = w.loop.time()
        # the reference may expect events the implementation never scheduled (e.g. a missing pong timer): replay them
        while ref.dead_at is None and ref.next_event() < horizon and closed_at is None:
            ref.on_timer(ref.next_event())
        w.drain()
        # observations
        pings: list[float] = []
        ping_id = msg_id("PingRequest")
        for t, data in sock.sent[n_before:]:
            for _, typ, _pl in wire.frame_ends(data):
                if typ == ping_id:
                    pings.append(t)
        viol: list[str] = []
        if len(pings) != len(ref.pings) or any(abs(a - b) > 1e-6 for a, b in zip(pings, ref.pings)):
            viol.append(f"C10:ping-times:pings on the wire at {[p - t0 for p in pings]} (relative), reference {[p - t0 for p in ref.pings]}")
        if (closed_at is None) != (ref.dead_at is None):
            viol.append(f"C10:dead:{'closed at ' + str(closed_at - t0) if closed_at is not None else 'still alive at the horizon'}, "
                        f"reference: {'dead at ' + str(ref.dead_at - t0) if ref.dead_at is not None else 'alive'}")
        elif closed_at is not None and abs(closed_at - ref.dead_at) > 1e-6:  # type: ignore[operator]
            viol.append(f"C10:dead-time:closed at {closed_at - t0}, reference {ref.dead_at - t0}")  # type: ignore[operator]
        if closed_at is not None and not viol and stopraises:
            w.run_timers(w.loop.time() + 2 * k)
            left = [h for h in w.loop.live_timers() if h._when < t0 + 5e4]
            if (w.sock is not None and not w.sock.closed) or left:
                viol.append(f"C10:dead:declared dead, but the socket is {'open' if w.sock is not None and not w.sock.closed else 'closed'} and "
                            f"{len(left)} timers are still armed afterwards (the stop callback raised)")
        if closed_at is not None and not viol:
            out = w.outcome("req")
            if out != "exc:PingFailedAPIError" and not (reqdue and out == "exc:TimeoutAPIError"):
                viol.append(f"C10:cause:pending request ended {out}, expected PingFailedAPIError")
            st = stops if default else [(t, e) for t, e, _ in w.stops]
            if [e for _, e in st] != [False]:
                viol.append(f"C10:stop:on_stop calls {st}, expected exactly one with expected=False")
            d = closed_at - ref.last_life
            lo, hi = 5.5 * k, 6.5 * k
            if was_late:
                pass  # the derived window assumes a punctual loop
            elif not (lo - 1e-9 <= d <= hi + 1e-9) or (abs(d - lo) < 1e-9 and not ref.last_life_before_tick and ref.last_life != t0):
                viol.append(f"C10:window:silent since {ref.last_life - t0}, detected after {d} = {d / k}K, outside (5.5K, 6.5K]")
        return {"viol": viol, "pings": len(pings), "dead": closed_at is not None, "k": k,
                "obs": {"pings_rel": [p - t0 for p in pings], "closed_rel": None if closed_at is None else closed_at - t0}}
    finally:
        w.close()


def _job(args: tuple[Any, ...]) -> tuple[Any, dict[str, Any]]:
    env.load()
    return args, run_schedule(*args)


def tie_slots(k: float) -> set[int]:
    # slots that can coincide with a tick (multiples of GRID) or a deadline (tick + 4.5K = multiples of GRID/2)
    return {s for s in range(1, PERIODS * GRID) if s % (GRID // 2) == 0}


def schedules(kspec: Any, max_n: int, kinds: tuple[str, ...], pair_kinds: tuple[str, ...]) -> list[tuple[Any, ...]]:
    slots = list(range(1, PERIODS * GRID))
    ties = tie_slots(0)
    out: list[tuple[Any, ...]] = [(kspec, ())]

    def orders(s: int) -> tuple[str, ...]:
        return ("io", "timer") if s in ties else ("io",)

    for s in slots:
        for kd in kinds:
            for o in orders(s):
                out.append((kspec, ((s, kd, o),)))
    if max_n >= 2:
        for s1, s2 in itertools.combinations_with_replacement(slots, 2):
            for k1 in pair_kinds:
                for k2 in pair_kinds:
                    if s1 == s2:
                        # two chunks at one instant: both before / both after / split around a simultaneous timer
                        for o1, o2 in (("io", "io"), ("io", "timer"), ("timer", "timer")) if s1 in ties else (("io", "io"),):
                            out.append((kspec, ((s1, k1, o1), (s2, k2, o2))))
                    else:
                        for o1 in orders(s1):
                            for o2 in orders(s2):
                                out.append((kspec, ((s1, k1, o1), (s2, k2, o2))))
    if max_n >= 3:
        coarse = [s for s in slots if s % 2 == 0]
        for s1, s2, s3 in itertools.combinations(coarse, 3):
            for k1, k2, k3 in itertools.product(("PRESP", "UK"), repeat=3):
                for o in ("io", "timer"):
                    out.append((kspec, ((s1, k1, o), (s2, k2, o), (s3, k3, o))))
    return out


def run(tier: str, seed: int) -> Result:
    res = Result("C10", "model_checking")
    q = tier == "quick"
    ks: list[Any] = [0.25, 0.5, 1.0, 4.0, "default", 64.0]
    # VERIF_SEED only rotates which dyadic keepalive value gets the deep enumeration in the quick tier
    deep = ks
    jobs: list[tuple[Any, ...]] = []
    for k in ks:
        if k in deep:
            jobs += schedules(k, 2 if q else 3, KINDS, ("PRESP", "UK", "PR") if q else KINDS)
        else:
            jobs += schedules(k, 1, KINDS, ())
    jobs += schedules("debug:2.0", 2 if q else 3, KINDS, ("PRESP", "UK"))
    for sl in (0.3, 0.45, 1.25):
        jobs += schedules(f"slow:{sl}:2.0", 1 if q else 2, KINDS, ("PRESP", "UK"))
    for kk in (1.0, 2.0):
        jobs += schedules(f"reqdue:{kk}", 1 if q else 2, KINDS, ("PRESP", "UK"))
    jobs += schedules("noname:2.0", 1 if q else 2, KINDS, ("PRESP", "UK"))
    jobs += schedules(2.0, 2, ("STP",), ("STP",))  # reads that end inside a long message, in front of it a complete one
    for period in (2, 3, 7, 8):
        arr = tuple((i * period + 1, "STP", "io") for i in range(0, (PERIODS * GRID) // period))
        jobs.append((2.0, arr))
    jobs += schedules("stopraises:2.0", 1 if q else 2, KINDS, ("PRESP", "UK"))
    # keepalive values whose 4.5*K has many decimals, and very small ones: nothing is rounded
    # (arrivals strictly inside the grid cells: with non-dyadic K a "tie" would be decided by floating-point noise)
    for kk in (0.3, 0.07, 0.013, 0.002, 0.001, 1e-4, 123.456):
        jobs.append((kk, ()))
        for s_ in [x + 0.5 for x in range(0, PERIODS * GRID - 1)]:
            for kd in ("PRESP", "UK"):
                jobs.append((kk, ((s_, kd, "io"),)))
    # a loop that was blocked: the n-th timer runs late by a fraction of K; everything is measured from when it actually ran
    for k in (1.0, 4.0):
        for n in range(0, 9):
            for frac in (0.4, 0.9):
                jobs.append((k, (), PERIODS, ((n, frac),)))
                for slot in (5.0, 9.0, 13.0, 21.0):
                    jobs.append((k, ((slot, "PRESP", "io"),), PERIODS, ((n, frac),)))
                if n < 8:
                    jobs.append((k, (), PERIODS, ((n, frac), (n + 1, 0.3))))
    # a non-dyadic value with strictly interior arrivals (no ties possible): K = 7.3, arrivals shifted by K/8
    slots = [s + 0.5 for s in range(0, PERIODS * GRID - 1)]
    for s in slots:
        for kd in KINDS:
            jobs.append((7.3, ((s, kd, "io"),)))
    if not q:
        for s1, s2 in itertools.combinations(slots, 2):
            for k1, k2 in itertools.product(("PRESP", "UK"), repeat=2):
                jobs.append((7.3, ((s1, k1, "io"), (s2, k2, "io"))))
    # periodic traffic over 30 K: a peer that keeps talking is never dropped, one that talks too rarely is
    for k in ks:
        for period in (1, 2, 3, 4, 5, 8, 12, 16, 17, 18, 19, 20, 21, 22, 23, 24, 26):
            for off in range(0, min(period, 8)):
                for kd in ("PRESP", "ST", "UK"):
                    for o in ("io", "timer"):
                        arr = tuple((float(off + i * period) if False else off + i * period, kd, o) for i in range(0, (30 * GRID) // period + 1)
                                    if 0 < off + i * period < 30 * GRID)
                        jobs.append((k, arr, 30))
    ctx = mp.get_context("fork")
    with ctx.Pool(min(16, os.cpu_count() or 1)) as pool:
        outs = pool.map(_job, jobs, chunksize=200)
    dead = sum(1 for _, o in outs if o["dead"])
    alive = len(outs) - dead
    transitions = sum(o["pings"] for _, o in outs)
    distinct = {(str(a[0]), tuple(o["obs"]["pings_rel"]), o["obs"]["closed_rel"]) for a, o in outs}
    kdefault = next((o["k"] for a, o in outs if a[0] == "default"), None)
    for a, o in outs:
        if o["viol"]:
            clause = o["viol"][0]
            kind = ":".join(clause.split(":")[:2])
            res.add(f"K={a[0]}:{kind}:{a[1]}", clause, {"harness": "c10", "k": a[0], "arrivals": [list(x) for x in a[1]],
                                                         "periods": a[2] if len(a) > 2 else PERIODS, "late": [list(x) for x in a[3]] if len(a) > 3 else [],
                                                         "violated": o["viol"], "observed": o["obs"]})
    if not res.violations and (dead < 50 or alive < 50 or len(distinct) < 100):
        raise HarnessError(f"vacuous: dead={dead} alive={alive} distinct={len(distinct)}")
    res.coverage = {
        "states": len(distinct),
        "transitions": len(jobs),
        "traces_validated_against_impl": len(jobs),
        "schedules": len(jobs),
        "schedules_ending_dead": dead,
        "schedules_alive_at_horizon": alive,
        "distinct_observation_traces": len(distinct),
        "keepalive_values": [str(k) for k in ks],
        "default_keepalive_read_from_client": kdefault,
        "deep_enumeration_for": [str(k) for k in deep],
        "grid": f"K/{GRID} over {PERIODS}K",
        "exhaustive": True,
        "samples": [{"K": str(a[0]), "arrivals": [list(x) for x in a[1]], **o["obs"]} for a, o in outs[:: max(1, len(outs) // 4)]][:5],
        "rule": "states = distinct (K, ping instants, close instant) observation traces; transitions = schedules executed",
    }
    res.assumptions = [
        "frames of undefined type do not count as signs of life (C12: ignored with no other effect)",
        "an arrival processed before a simultaneous tick counts as before it (time is read as (virtual time, processing order))",
    ]
    return res


def replay(rp: dict[str, Any]) -> bool:
    d = rp["detail"]
    k = d["k"]
    try:
        k = float(k)
    except ValueError:
        pass  # "default", "debug:<K>", "slow:<d>:<K>", "reqdue:<K>"
    o = run_schedule(k, tuple(tuple(x) for x in d["arrivals"]), int(d.get("periods", PERIODS)), tuple(tuple(x) for x in d.get("late", [])))
    print(o)
    return not o["viol"]
