"""C13 - message-id registry equals api.proto ids; traffic respects direction."""

from __future__ import annotations

import inspect
from typing import Any

from google.protobuf.descriptor import FieldDescriptor as FD

from .. import env, pbgen, protoparse
from ..evidence import Result
from ..vloop import HarnessError
from ..world import ConnWorld

SCALAR = {
    "double": FD.TYPE_DOUBLE, "float": FD.TYPE_FLOAT, "int64": FD.TYPE_INT64, "uint64": FD.TYPE_UINT64,
    "int32": FD.TYPE_INT32, "fixed64": FD.TYPE_FIXED64, "fixed32": FD.TYPE_FIXED32, "bool": FD.TYPE_BOOL,
    "string": FD.TYPE_STRING, "bytes": FD.TYPE_BYTES, "uint32": FD.TYPE_UINT32, "sfixed32": FD.TYPE_SFIXED32,
    "sfixed64": FD.TYPE_SFIXED64, "sint32": FD.TYPE_SINT32, "sint64": FD.TYPE_SINT64,
}
SOURCE_NUM = {"SOURCE_BOTH": 0, "SOURCE_SERVER": 1, "SOURCE_CLIENT": 2}


def compare_file(res: Result, tag: str, pf: protoparse.PFile, pb2: Any, opts_pb2: Any, counter: list[int]) -> None:
    fdesc = pb2.DESCRIPTOR
    text_msgs = set(pf.messages)
    desc_msgs = set(fdesc.message_types_by_name)
    counter[0] += 1
    if text_msgs != desc_msgs:
        res.add(f"{tag}:message-set", f"messages differ between text and descriptors: only text {sorted(text_msgs - desc_msgs)}, "
                f"only descriptors {sorted(desc_msgs - text_msgs)}")
    text_enums = set(pf.enums)
    desc_enums = set(fdesc.enum_types_by_name)
    counter[0] += 1
    if text_enums != desc_enums:
        res.add(f"{tag}:enum-set", f"enums differ: only text {sorted(text_enums - desc_enums)}, only descriptors {sorted(desc_enums - text_enums)}")
    for name in sorted(text_enums & desc_enums):
        counter[0] += 1
        tv = list(pf.enums[name].values)
        dv = [(v.name, v.number) for v in fdesc.enum_types_by_name[name].values]
        if tv != dv:
            res.add(f"{tag}:enum:{name}", f"enum {name}: text {tv} != descriptors {dv}")
    for name in sorted(text_msgs & desc_msgs):
        pm = pf.messages[name]
        d = fdesc.message_types_by_name[name]
        counter[0] += 1
        tf = {f.name: f for f in pm.fields}
        df = {f.name: f for f in d.fields}
        if set(tf) != set(df):
            res.add(f"{tag}:fields:{name}", f"{name}: field names differ: text {sorted(tf)} descriptors {sorted(df)}")
            continue
        for fn, f in tf.items():
            counter[0] += 1
            g = df[fn]
            probs = []
            if f.number != g.number:
                probs.append(f"number {f.number}!={g.number}")
            if (f.label == "repeated") != pbgen.is_repeated(g):
                probs.append("label")
            if f.type in SCALAR:
                if SCALAR[f.type] != g.type:
                    probs.append(f"type {f.type} != {g.type}")
            elif f.type in pf.enums or g.type == FD.TYPE_ENUM:
                if g.type != FD.TYPE_ENUM or g.enum_type.name != f.type:
                    probs.append(f"enum type {f.type}")
            else:
                if g.type != FD.TYPE_MESSAGE or g.message_type.name != f.type:
                    probs.append(f"message type {f.type}")
            if probs:
                res.add(f"{tag}:field:{name}.{fn}", f"{name}.{fn}: {', '.join(probs)}")
        if opts_pb2 is not None:
            o = d.GetOptions()
            counter[0] += 1
            want_id = int(pm.options.get("id", 0))
            got_id = o.Extensions[opts_pb2.id]
            if want_id != got_id:
                res.add(f"{tag}:id:{name}", f"{name}: option (id) text {want_id} != descriptors {got_id}")
            want_src = SOURCE_NUM[pm.options.get("source", "SOURCE_BOTH")]
            got_src = o.Extensions[opts_pb2.source]
            if want_src != got_src:
                res.add(f"{tag}:source:{name}", f"{name}: option (source) text {want_src} != descriptors {got_src}")


def table_check(res: Result, counter: list[int]) -> dict[int, str]:
    from aioesphomeapi import connection, core

    ids = env.proto_ids()
    pb = env.pb()
    table = core.MESSAGE_TYPE_TO_PROTO
    counter[0] += 1
    if set(table) != set(ids):
        res.add("table:idset", f"ids in table but not in api.proto: {sorted(set(table) - set(ids))}; in api.proto but not in table: {sorted(set(ids) - set(table))}")
    counter[0] += 1
    if sorted(ids) != list(range(1, len(ids) + 1)):
        res.add("proto:contiguous", "ids declared in api.proto are not contiguous from 1")
    counter[0] += 1
    if list(table) != sorted(table):
        res.add("table:order", "table is not in ascending id order (positional lookup depends on it)")
    seen: dict[Any, int] = {}
    for i, klass in table.items():
        counter[0] += 1
        want = ids.get(i)
        if klass.__name__ != want or klass is not getattr(pb, want or "", None):
            res.add(f"table:{i}", f"id {i}: table has {klass.__name__}, api.proto declares {want}")
        if klass in seen:
            res.add(f"table:dup:{klass.__name__}", f"{klass.__name__} registered under {seen[klass]} and {i}")
        seen[klass] = i
        counter[0] += 1
        pos = connection.MESSAGE_NUMBER_TO_PROTO
        if not (1 <= i <= len(pos)) or pos[i - 1] is not getattr(pb, want or "", None):
            got = pos[i - 1].__name__ if 1 <= i <= len(pos) else None
            res.add(f"positional:{i}", f"positional lookup [id-1] for id {i} yields {got}, api.proto declares {want}")
        counter[0] += 1
        if connection.PROTO_TO_MESSAGE_TYPE.get(getattr(pb, want or "", None)) != i:
            res.add(f"reverse:{i}", f"reverse table maps {want} to {connection.PROTO_TO_MESSAGE_TYPE.get(getattr(pb, want or '', None))}, not {i}")
    counter[0] += 1
    if len(connection.MESSAGE_NUMBER_TO_PROTO) != len(ids):
        res.add("positional:len", f"positional table has {len(connection.MESSAGE_NUMBER_TO_PROTO)} entries, api.proto declares {len(ids)} ids")
    # messages without an id must not be registered
    pf = env.proto()
    no_id = {n for n, m in pf.messages.items() if "id" not in m.options}
    for klass in table.values():
        counter[0] += 1
        if klass.__name__ in no_id:
            res.add(f"table:noid:{klass.__name__}", f"{klass.__name__} has no id in api.proto but is registered")
    return ids


# ---------------------------------------------------------------------------------------------------
# direction sweep
# ---------------------------------------------------------------------------------------------------
def _stub_sync(*a: Any, **k: Any) -> None:
    return None


async def _stub_async(*a: Any, **k: Any) -> None:
    return None


def synth(name: str, ann: str, model: Any) -> Any:
    a = ann.replace(" ", "")
    base = a.split("|")[0]
    if "Callable" in a:
        return _stub_async if "Coroutine" in a or "Awaitable" in a else _stub_sync
    if base in ("int",):
        return 1
    if base == "float":
        return 1.0
    if base == "str":
        return "x"
    if base == "bool":
        return True
    if base == "bytes":
        return b"ab"
    if base.startswith("list[str]"):
        return ["a"]
    if base.startswith("dict[str,str]"):
        return {"a": "b"}
    if base.startswith("tuple[float,float,float]"):
        return (0.1, 0.2, 0.3)
    if base == "ExecuteServiceDataType":
        return {"a": 1}
    if base == "UserService":
        return model.UserService(name="svc", key=1, args=[model.UserServiceArg(name="a", type=model.UserServiceArgType.INT)])
    if hasattr(model, base):
        k = getattr(model, base)
        try:
            return list(k)[0]
        except TypeError:
            return k()
    raise ValueError(f"cannot synthesise {name}: {ann}")


SKIP_METHODS = {
    # connection management, not message traffic of an established session (covered: hello/connect/disconnect below)
    "connect", "start_connection", "finish_connection", "disconnect", "set_debug", "set_cached_name_if_unset",
}


ERRORISH = ("BluetoothGATTErrorResponse", "BluetoothDeviceConnectionResponse")


def _auto_respond(w: ConnWorld, handlers: Any, before_sub: set[str], before_frames: int, ids: dict[int, str]) -> None:
    pb = env.pb()
    tried: set[str] = set()
    for _ in range(6):
        if not w.pending("call"):
            return
        sub = sorted({k.__name__ for k, v in handlers.items() if len(v)} - before_sub)
        frames = w.sent_frames()[before_frames:]
        req = None
        if frames:
            t, pl = frames[-1]
            if t in ids:
                req = getattr(pb, ids[t])()
                req.ParseFromString(pl)
        rname = type(req).__name__ if req is not None else ""

        def rank(name: str) -> tuple[int, str]:
            if name == rname.replace("Request", "Response") and name not in tried:
                return (0, name)
            if name.endswith("DoneResponse"):
                return (1, name)
            if name in ERRORISH:
                return (3, name)
            return (2, name)

        cands = [x for x in sorted(sub, key=rank) if x not in tried] or sorted(sub, key=rank)
        if not cands:
            return
        name = cands[0]
        tried.add(name)
        msg = getattr(pb, name)()
        if req is not None:
            for fd in msg.DESCRIPTOR.fields:
                if fd.name in req.DESCRIPTOR.fields_by_name and not pbgen.is_repeated(fd) and fd.type != fd.TYPE_MESSAGE:
                    try:
                        setattr(msg, fd.name, getattr(req, fd.name))
                    except (TypeError, ValueError):
                        pass
        if "connected" in msg.DESCRIPTOR.fields_by_name:
            msg.connected = True
        w.io_chunk(w.sock, w.dframe(msg))
        w.drain()


def _exercise(w: ConnWorld, r: Any) -> None:
    items = list(r) if isinstance(r, (tuple, list)) else [r]
    for i, it in enumerate(items):
        if not callable(it):
            continue
        try:
            if inspect.iscoroutinefunction(it):
                w.spawn(f"ret{i}", it)
            else:
                it()
        except Exception:  # noqa: BLE001
            pass
        w.drain()


def direction_sweep(res: Result, counter: list[int]) -> dict[str, Any]:
    from aioesphomeapi import model
    from aioesphomeapi.client import APIClient

    pf = env.proto()
    ids = env.proto_ids()

    def src(name: str) -> str:
        return protoparse.source_of(pf, name)

    methods = []
    for n, obj in inspect.getmembers(APIClient, predicate=inspect.isfunction):
        if n.startswith("_") or n in SKIP_METHODS:
            continue
        methods.append((n, obj))
    uncovered: list[str] = []
    answered: set[str] = set()
    sent_all: set[str] = set()
    sub_all: set[str] = set()
    calls = 0
    skipped_internal = False
    for major_minor in ((1, 0), (1, 2), (1, 4), (1, 10)):
        for n, fn in methods:
            sig = inspect.signature(fn)
            kwargs = {}
            try:
                for pn, p in list(sig.parameters.items())[1:]:
                    ann = p.annotation if isinstance(p.annotation, str) else getattr(p.annotation, "__name__", str(p.annotation))
                    kwargs[pn] = synth(pn, ann, model)
            except ValueError as e:
                if major_minor == (1, 10):
                    uncovered.append(f"{n}: {e}")
                continue
            w = ConnWorld(client=True, login=True)
            try:
                w.do_start()
                w.do_tcp_ok()
                w.do_finish_call()
                data = w.dframe(w.hello_resp(major=major_minor[0], minor=major_minor[1])) + w.dframe(w.connect_resp())
                w.io_chunk(w.sock, data)
                w.drain()
                if w.outcome("finish") != "ok":
                    raise HarnessError(f"connect failed: {w.results}")
                conn = w.client._connection
                handlers = getattr(conn, "_message_handlers", None)
                if handlers is None:
                    skipped_internal = True
                    before_sub: set[str] = set()
                else:
                    before_sub = {k.__name__ for k, v in handlers.items()}
                    if major_minor == (1, 10) and n == methods[0][0]:
                        # internal handlers and connect-phase subscriptions
                        for k in before_sub:
                            counter[0] += 1
                            if src(k) == "SOURCE_CLIENT":
                                res.add(f"direction:sub:internal:{k}", f"the connection subscribes to {k}, which api.proto marks client-originated")
                before_frames = len(w.sent_frames())
                counter[0] += 1
                calls += 1
                bound = getattr(w.client, n)
                if inspect.iscoroutinefunction(fn):
                    w.spawn("call", lambda: bound(**kwargs))
                else:
                    try:
                        r = bound(**kwargs)
                        if callable(r):  # unsubscribe functions also generate traffic
                            w.drain()
                            r()
                    except Exception as e:  # noqa: BLE001
                        if major_minor == (1, 10):
                            uncovered.append(f"{n}: raised {type(e).__name__}: {e}")
                # let eager tasks write, then play the device: answer with the subscribed types until the call returns,
                # and exercise whatever the call returns (unsubscribe / stop functions generate traffic too)
                w.drain()
                if handlers is not None and inspect.iscoroutinefunction(fn):
                    _auto_respond(w, handlers, before_sub, before_frames, ids)
                    r = w.results.get("call")
                    if r is not None and r[0] == "ok":
                        answered.add(n)
                        _exercise(w, r[1])
                frames = w.sent_frames()[before_frames:]
                for t, _ in frames:
                    nm = ids.get(t)
                    counter[0] += 1
                    if nm is None:
                        res.add(f"direction:send:{n}:unknown{t}", f"{n} wrote type {t}, which api.proto does not define")
                        continue
                    sent_all.add(nm)
                    if src(nm) == "SOURCE_SERVER":
                        res.add(f"direction:send:{n}:{nm}", f"{n} sends {nm}, which api.proto marks server-originated")
                if handlers is not None:
                    after_sub = {k.__name__ for k, v in handlers.items()}
                    for k in after_sub - before_sub:
                        counter[0] += 1
                        sub_all.add(k)
                        if src(k) == "SOURCE_CLIENT":
                            res.add(f"direction:sub:{n}:{k}", f"{n} subscribes to {k}, which api.proto marks client-originated")
            finally:
                w.close()
    return {
        "api_calls": calls,
        "methods": len(methods),
        "uncovered_methods": uncovered,
        "awaited_methods_completed_by_auto_responder": sorted(answered),
        "types_sent": sorted(sent_all),
        "types_subscribed": sorted(sub_all),
        "handler_table_unreadable": skipped_internal,
    }


def size_sweep(res: Result, counter: list[int]) -> int:
    """'the wire id equals the registry id of the class sent' whatever the payload size: every client-sendable class that has a string
    or bytes field, padded to serialized lengths around the varint / byte boundaries, through both transports, decoded independently."""
    from aioesphomeapi.core import MESSAGE_TYPE_TO_PROTO

    pf = env.proto()
    ids = env.proto_ids()
    by_name = {v: k for k, v in ids.items()}
    targets = (126, 127, 128, 129, 255, 256, 257, 16383, 16384, 16385)
    n = 0
    for noise in (False, True):
        w = ConnWorld(noise=noise)
        try:
            w.connect_fully()
            broken = False
            for cls in MESSAGE_TYPE_TO_PROTO.values():
                if broken:
                    break  # the byte stream is mis-framed from the first wrong frame on
                name = cls.__name__
                if name not in by_name or protoparse.source_of(pf, name) == "SOURCE_SERVER":
                    continue
                if name in ("DisconnectRequest", "DisconnectResponse"):
                    continue
                fld = next((f for f in cls.DESCRIPTOR.fields if f.type in (f.TYPE_STRING, f.TYPE_BYTES) and not pbgen.is_repeated(f)), None)
                if fld is None:
                    continue
                for target in targets:
                    msg = None
                    for pad in range(max(0, target - 8), target + 1):
                        m = cls()
                        setattr(m, fld.name, ("x" * pad) if fld.type == fld.TYPE_STRING else (b"x" * pad))
                        if len(m.SerializeToString()) == target:
                            msg = m
                            break
                    if msg is None:
                        continue
                    before = len(w.sent_frames())
                    try:
                        w.conn.send_message(msg)
                    except Exception as e:  # noqa: BLE001
                        res.add(f"size:{name}:{target}:raises", f"sending a {target}-byte {name} raised {type(e).__name__}: {e}")
                        continue
                    w.drain()
                    try:
                        frames = w.sent_frames()[before:]
                    except Exception as e:  # noqa: BLE001
                        res.add(f"size:{'noise' if noise else 'plain'}:{target}", f"a {target}-byte {name} is not decodable on the wire: {type(e).__name__}: {e}")
                        broken = True
                        break
                    counter[0] += 1
                    n += 1
                    want = [(by_name[name], msg.SerializeToString())]
                    if [(t, bytes(p)) for t, p in frames] != want:
                        got = [(t, ids.get(t, "?"), len(p)) for t, p in frames]
                        res.add(f"size:{'noise' if noise else 'plain'}:{target}", f"a {name} (id {by_name[name]}) with a {target}-byte payload appears on the wire as "
                                f"{got} (type, name, payload length)")
                        broken = True
                        break
                if w.conn.connection_state.name != "CONNECTED":
                    break
        finally:
            w.close()
    return n


def reaction_sweep(res: Result, counter: list[int]) -> dict[str, Any]:
    """What the client writes *in reaction to* device traffic: with every client-level subscription active (voice-assistant start handler
    once answering at once, once still busy), every server- or both-originated message is delivered twice in a row; every frame the
    client writes back must be a defined client- or both-originated type."""
    from aioesphomeapi.core import MESSAGE_TYPE_TO_PROTO

    pf = env.proto()
    ids = env.proto_ids()
    n = 0
    ended_session: set[str] = set()
    names = [c.__name__ for c in MESSAGE_TYPE_TO_PROTO.values()]
    order = [x for x in names if x != "DisconnectRequest"] + ["DisconnectRequest"]
    order = [x for x in order if x in ids.values() and protoparse.source_of(pf, x) != "SOURCE_CLIENT"]

    def session(noise: bool, start_mode: str) -> tuple[ConnWorld, list[Any]]:
        w = ConnWorld(client=True, login=True, noise=noise)
        w.connect_fully()
        cl = w.client
        gates: list[Any] = []

        async def h_start(conversation_id: str, flags: int, audio_settings: Any, wake_word_phrase: Any) -> int | None:
            if start_mode == "busy":
                g = w.loop.create_future()
                gates.append(g)
                return await g
            if start_mode == "raises":
                raise RuntimeError("application start handler failed")
            return 6000

        async def h_stop(abort: bool) -> None:
            return None

        async def h_audio(data: bytes) -> None:
            return None

        async def h_ann(finished: Any) -> None:
            return None

        cl.subscribe_states(lambda st: None)
        cl.subscribe_logs(lambda m: None)
        cl.subscribe_service_calls(lambda m: None)
        cl.subscribe_home_assistant_states(lambda a, b: None, lambda a, b: None)
        cl.subscribe_bluetooth_le_advertisements(lambda m: None)
        cl.subscribe_bluetooth_connections_free(lambda a, b: None)
        unsub_va = cl.subscribe_voice_assistant(handle_start=h_start, handle_stop=h_stop, handle_audio=h_audio, handle_announcement_finished=h_ann)
        w.drain()
        w.unsub_va = unsub_va  # type: ignore[attr-defined]
        return w, gates

    for noise in (False, True):
        for start_mode in ("answers", "busy", "raises"):
            w, gates = session(noise, start_mode)
            try:
                for name in order:
                    if w.sock is None or w.sock.closed:
                        w.close()
                        w, gates = session(noise, start_mode)
                    before = len(w.sent_frames())
                    sock = w.sock
                    for salt in (1, 2):
                        m = pbgen.populate(getattr(env.pb(), name)(), salt)
                        if name == "VoiceAssistantRequest":
                            m.start = True
                        w.io_chunk(sock, w.dframe(m))
                        w.drain()
                        if sock.closed:
                            break
                    counter[0] += 1
                    n += 1
                    if sock.closed and name != "DisconnectRequest":
                        # the generated field values made no sense to a converter (e.g. a UUID string that is not hexadecimal): the
                        # session ended; what was written until then still counts, the next message gets a fresh session
                        ended_session.add(name)
                    try:
                        frames = [(t, p) for t, p in (wire_frames(w, sock))][before:]
                    except Exception as e:  # noqa: BLE001
                        res.add(f"reaction:{name}:undecodable", f"what the client wrote after receiving {name} twice does not decode: {type(e).__name__}: {e}")
                        continue
                    for t, _ in frames:
                        nm = ids.get(t)
                        if nm is None:
                            res.add(f"reaction:{name}:unknown{t}", f"after receiving {name} twice ({start_mode} start handler) the client wrote type {t}, which api.proto does not define")
                        elif protoparse.source_of(pf, nm) == "SOURCE_SERVER":
                            res.add(f"reaction:{name}:{nm}", f"after receiving {name} twice ({start_mode} start handler) the client wrote {nm}, which api.proto marks server-originated")
                # the application unsubscribes from the voice assistant while a start is still being handled: whatever the client writes
                # then (at once or a few loop turns later, from task callbacks) is still client-originated
                if w.sock is None or w.sock.closed:
                    w.close()
                    w, gates = session(noise, start_mode)
                before = len(w.sent_frames())
                m = pbgen.populate(env.pb().VoiceAssistantRequest(), 3)
                m.start = True
                w.io_chunk(w.sock, w.dframe(m))
                w.drain()
                try:
                    w.unsub_va()  # type: ignore[attr-defined]
                except Exception as e:  # noqa: BLE001
                    res.add(f"reaction:voice-unsubscribe:raises", f"unsubscribing from the voice assistant ({start_mode} start handler) raised {type(e).__name__}: {e}")
                w.drain()
                w.run_timers(w.loop.time() + 1.0)
                n += 1
                counter[0] += 1
                for t, _ in w.sent_frames()[before:]:
                    nm = ids.get(t)
                    if nm is None or protoparse.source_of(pf, nm) == "SOURCE_SERVER":
                        res.add(f"reaction:voice-unsubscribe:{nm or t}", f"after a voice-assistant start ({start_mode} handler) and the application's unsubscribe the client "
                                f"wrote {nm or t}, which api.proto {'does not define' if nm is None else 'marks server-originated'}")
                for g in gates:
                    if not g.done():
                        g.cancel()
                w.drain()
            finally:
                w.close()
    return {"reactions_to_device_messages": n, "reaction_messages_that_ended_the_session": sorted(ended_session)}


def wire_frames(w: ConnWorld, sock: Any) -> list[tuple[int, bytes]]:
    return w.sent_frames(sock)


def dispatch_sweep(res: Result, counter: list[int]) -> int:
    """Receive side of 'positional lookup selects the right class for every id and nothing else is present': every declared id, and the
    ids that would alias onto a declared one if a byte of the type were lost, through both frame helpers of a connected session."""
    from aioesphomeapi.core import MESSAGE_TYPE_TO_PROTO

    from .. import noise_ref  # noqa: F401
    from ..world import mk  # noqa: F401

    ids = env.proto_ids()
    n = 0
    for noise in (False, True):
        w = ConnWorld(noise=noise)
        try:
            w.connect_fully()
            got: list[Any] = []
            w.conn.add_message_callback(got.append, tuple(MESSAGE_TYPE_TO_PROTO.values()))
            internal = {"DisconnectRequest", "PingRequest", "GetTimeRequest"}
            hi = max(ids)
            cands = sorted(set(ids) | {0, hi + 1, hi + 2, 255, 256, 65535} | {i + 256 for i in ids} | {i + 512 for i in ids} | {i << 8 for i in ids if (i << 8) <= 65535})
            for t in cands:
                name = ids.get(t)
                if name == "DisconnectRequest":
                    continue  # ends the session (C12 covers it)
                del got[:]
                if noise:
                    assert w.ndev is not None
                    frame = w.ndev.data_frame(t, b"")
                else:
                    from .. import wire as _wire

                    frame = _wire.encode_frame(t, b"")
                w.io_chunk(w.sock, frame)
                w.drain()
                n += 1
                counter[0] += 1
                if name is None:
                    # an undeclared id is undeclared every time it is seen: the same frame again, right behind the first
                    w.io_chunk(w.sock, w.ndev.data_frame(t, b"") if noise else frame)  # type: ignore[union-attr]
                    w.drain()
                    n += 1
                    counter[0] += 1
                names = [type(m).__name__ for m in got]
                tag = "noise" if noise else "plain"
                if name is not None and names != [name]:
                    res.add(f"dispatch:{tag}:{t}", f"{tag}: a frame of type {t} ({name}) was dispatched as {names}")
                elif name is None and names:
                    res.add(f"dispatch:{tag}:undeclared:{t}", f"{tag}: a frame of undeclared type {t} was dispatched as {names}")
                if w.conn.connection_state.name != "CONNECTED":
                    res.add(f"dispatch:{tag}:{t}:closed", f"{tag}: the session ended after a frame of type {t} with an empty payload")
                    break
            del internal
            tag = "noise" if noise else "plain"
            if not noise and w.conn.connection_state.name == "CONNECTED":
                # plaintext type numbers are varints of any length: declared ids shifted into the 4th, 5th ... varint byte are undeclared
                from .. import wire as _wire

                for i in sorted(ids):
                    for sh in (21, 28, 35):
                        if w.conn.connection_state.name != "CONNECTED":
                            break
                        t = i << sh
                        del got[:]
                        before_tx = len(w.sent_frames())
                        w.io_chunk(w.sock, _wire.encode_frame(t, b""))
                        w.drain()
                        n += 1
                        counter[0] += 1
                        if got or len(w.sent_frames()) != before_tx or w.conn.connection_state.name != "CONNECTED":
                            res.add(f"dispatch:plain:undeclared:{i}<<{sh}", f"plain: a frame of undeclared type {t} (= {i} << {sh}) was dispatched as "
                                    f"{[type(m).__name__ for m in got]}, frames written in reaction: {w.sent_names()[before_tx:]}, state {w.conn.connection_state.name}")
                            break
            # a frame cut inside its payload, the read that completes it also carries the next frame (of another type, same length):
            # each is looked up under its own id
            pay = b"\xf8\x7f\x01"  # one unknown varint field: decodable by every message class
            decl = [i for i in sorted(ids) if ids[i] not in ("DisconnectRequest", "DisconnectResponse", "PingRequest", "GetTimeRequest", "HelloResponse", "ConnectResponse")]
            for a, b in zip(decl, decl[1:] + decl[:1]):
                if w.conn.connection_state.name != "CONNECTED":
                    break
                fa = w.ndev.data_frame(a, pay) if noise else __import__("mc.wire", fromlist=["x"]).encode_frame(a, pay)  # type: ignore[union-attr]
                fb = w.ndev.data_frame(b, pay) if noise else __import__("mc.wire", fromlist=["x"]).encode_frame(b, pay)  # type: ignore[union-attr]
                del got[:]
                cut = len(fa) - 2
                w.io_chunk(w.sock, fa[:cut])
                w.drain()
                w.io_chunk(w.sock, fa[cut:] + fb)
                w.drain()
                n += 1
                counter[0] += 1
                names = [type(m).__name__ for m in got]
                if names != [ids[a], ids[b]]:
                    res.add(f"dispatch:{tag}:cut:{a}+{b}", f"{tag}: frame {a} ({ids[a]}) cut inside its payload, completed in one read together with frame {b} "
                            f"({ids[b]}): dispatched as {names}")
                    break
        finally:
            w.close()
    return n


def structural(res: Result, counter: list[int]) -> dict[int, str]:
    import os

    from aioesphomeapi import api_options_pb2

    ids = table_check(res, counter)
    compare_file(res, "api", env.proto(), env.pb(), api_options_pb2, counter)
    opf = protoparse.parse_file(os.path.join(env.REPO, "aioesphomeapi", "api_options.proto"))
    compare_file(res, "api_options", opf, api_options_pb2, None, counter)
    ext = {f.name: f.number for f in opf.extends.get("google.protobuf.MessageOptions", [])}
    for nm in ("id", "source"):
        counter[0] += 1
        if getattr(api_options_pb2, nm).number != ext.get(nm):
            res.add(f"api_options:ext:{nm}", f"extension {nm}: text {ext.get(nm)} != descriptors {getattr(api_options_pb2, nm).number}")
    return ids


def other_backend(res: Result, counter: list[int]) -> str:
    """The generated module builds its descriptors differently under the pure-Python protobuf runtime: repeat the structural comparison
    in a child interpreter that runs on that backend."""
    import json
    import os
    import subprocess
    import sys

    code = ("import json,sys\n"
            "from mc import env\nenv.load()\n"
            "from google.protobuf.internal import api_implementation as ai\n"
            "from mc.evidence import Result\nfrom mc.props import c13\n"
            "r=Result('C13','exploration'); c=[0]; c13.structural(r,c)\n"
            "print('C13CHILD'+json.dumps({'backend':ai.Type(),'n':c[0],'viol':[[v.key,v.clause] for v in r.violations]}))\n")
    e = dict(os.environ)
    e["PROTOCOL_BUFFERS_PYTHON_IMPLEMENTATION"] = "python"
    e["PYTHONPATH"] = env.VERIF + os.pathsep + e.get("PYTHONPATH", "")
    p = subprocess.run([sys.executable, "-B", "-c", code], env=e, capture_output=True, text=True, cwd=env.VERIF, check=False)
    line = next((ln for ln in p.stdout.splitlines() if ln.startswith("C13CHILD")), None)
    if line is None:
        raise HarnessError(f"child interpreter on the pure-Python protobuf backend failed: {p.stderr[-400:]}")
    out = json.loads(line[8:])
    if out["backend"] != "python":
        return f"not available (child ran on {out['backend']})"
    counter[0] += out["n"]
    for k, clause in out["viol"]:
        res.add("python-backend:" + k, "under the pure-Python protobuf runtime: " + clause)
    return "python"


def run(tier: str, seed: int) -> Result:
    env.load()
    import os

    from aioesphomeapi import api_options_pb2

    res = Result("C13", "exploration")
    counter = [0]
    ids = table_check(res, counter)
    compare_file(res, "api", env.proto(), env.pb(), api_options_pb2, counter)
    opf = protoparse.parse_file(os.path.join(env.REPO, "aioesphomeapi", "api_options.proto"))
    compare_file(res, "api_options", opf, api_options_pb2, None, counter)
    # extension numbers of the options themselves
    ext = {f.name: f.number for f in opf.extends.get("google.protobuf.MessageOptions", [])}
    for nm in ("id", "source"):
        counter[0] += 1
        if getattr(api_options_pb2, nm).number != ext.get(nm):
            res.add(f"api_options:ext:{nm}", f"extension {nm}: text {ext.get(nm)} != descriptors {getattr(api_options_pb2, nm).number}")
    backend = other_backend(res, counter)
    dispatched = dispatch_sweep(res, counter)
    sweep = direction_sweep(res, counter)
    sweep["frames_dispatched_by_id"] = dispatched
    sweep["sized_frames_sent"] = size_sweep(res, counter)
    sweep.update(reaction_sweep(res, counter))
    sweep["structural_comparison_repeated_on_backend"] = backend
    if not res.violations and (len(ids) < 100 or sweep["api_calls"] < 150 or len(sweep["types_sent"]) < 40):
        raise HarnessError(f"vacuous: ids={len(ids)} sweep={sweep['api_calls']} sent={len(sweep['types_sent'])}")
    res.coverage = {
        "evaluations": counter[0],
        "distinct_nontrivial": len(ids) + len(sweep["types_sent"]) + len(sweep["types_subscribed"]),
        "rule": "one evaluation = one comparison (id/class/field/enum/option between api.proto text, compiled descriptors and the "
        "library tables) or one API call in the direction sweep; distinct = ids checked + distinct types seen sent/subscribed",
        "ids_in_proto_text": len(ids),
        "exhaustive": True,
        **sweep,
        "samples": [{"id": i, "message": ids[i]} for i in (1, len(ids) // 2, len(ids))],
    }
    res.assumptions = [
        "subscriptions are observed as new keys of the connection's handler table right after each call",
        "methods listed under uncovered_methods could not be called with synthesised arguments",
    ]
    return res


def replay(rp: dict[str, Any]) -> bool:
    r = run("quick", 0)
    bad = [v for v in r.violations if v.key == rp["key"]]
    print(rp["key"], "->", "still violated" if bad else "holds")
    return not bad
