"""C09 - operations end in bounded time with a classified error; first cause wins.

(1) schedule/fault exploration (shared lifecycle harness) with resolver and multi-address faults; oracle: every awaited
    operation ends within its documented bound of *virtual* time, with its result or an APIConnectionError, never hangs,
    never cancelled unless the harness cancelled it.
(2) first-cause differential sweep: for every seeded state S, every fatal cause F1 and every follow-up event F2 (in the same
    event-loop turn and one turn later), every operation that was pending at S must end with the same error class as in the
    history with F1 alone.  No expected classes are written by hand, except the named case of the property
    (0x01 marker, then the socket closes => requires-encryption).
"""

from __future__ import annotations

import multiprocessing as mp
import os
import time
from typing import Any

from .. import env
from ..evidence import Result
from ..explore import Stats, explore_parallel
from ..lifecycle import LifeHarness, LifeWorld, Oracle
from ..vloop import HarnessError

ATOMS_PLAIN = ("H", "C", "BV", "BP", "DR", "DRESP", "ST", "DI", "BAD", "PRE", "ENC", "ENC1")
ATOMS_NOISE = ("NH", "NHE", "NHELLO", "H", "C", "DR", "DI", "BAD", "PRE", "TAMPER")
PAIRS = (("ENC", "ST"), ("C", "H"), ("H", "BP"), ("DI", "DI"), ("DI", "DR"), ("DRESP", "DRESP"), ("H", "H"))

RESOLVE = 30.0
TCP = 60.0
HANDSHAKE = 30.0
HELLO = 30.0
REQUEST = 10.0
DISC = 15.0
EPS = 1e-6


class C09Oracle(Oracle):
    def __init__(self, n_addr: int) -> None:
        self.n_addr = n_addr

    def bound(self, name: str) -> float:
        if name.startswith("start"):
            return RESOLVE + TCP * self.n_addr
        if name.startswith("finish"):
            return HANDSHAKE + HELLO
        if name == "req":
            return REQUEST
        if name == "disc":
            return DISC
        return 1e9

    def check_results(self, w: LifeWorld) -> list[str]:
        from aioesphomeapi.core import APIConnectionError

        v = []
        for name, (kind, val, t) in w.results.items():
            dur = t - w.started[name]
            if dur > self.bound(name) + EPS:
                v.append(f"C09:late:{name} took {dur:g}s of virtual time, bound {self.bound(name):g}s")
            if kind == "exc" and not isinstance(val, APIConnectionError):
                v.append(f"C09:unclassified:{name} raised {type(val).__name__}: {str(val)[:60]}")
            if kind == "cancelled" and f"cancel:{name}" not in w.misuse:
                v.append(f"C09:cancelled:{name} ended cancelled although the caller did not cancel it")
        return v

    def verdict(self, w: LifeWorld) -> list[str]:
        v = self.check_results(w)
        # deadlock detector: an awaited call is pending, nothing can run, and no timer will ever fire
        if not w.loop.busy() and w.loop.next_timer_at() is None:
            pend = [n for n in w.tasks if w.pending(n)]
            waiting_on_env = bool(w.net.connecting()) or any(not f.done() for f, _ in w.net.gai_pending)
            if pend and not waiting_on_env:
                s = w.sock
                if s is None or s.closed or w.state() == "CLOSED":
                    v.append(f"C09:hang:{pend} pending with no timer armed and nothing left that could wake it")
        return v

    def finish(self, w: LifeWorld) -> list[str]:
        v = self.check_results(w)
        for n in w.tasks:
            if w.pending(n):
                v.append(f"C09:hang:{n} still pending {w.loop.time() - w.started[n]:g}s after it was called (bound {self.bound(n):g}s)")
        return v

    def key(self, w: LifeWorld) -> Any:
        return tuple(sorted((n, round(t, 3)) for n, t in w.started.items()))


def factory(noise: bool, seed: str, addresses: tuple[str, ...]) -> LifeHarness:
    n_addr = len(addresses)
    if any(not a[0].isdigit() for a in addresses):
        n_addr = 2  # hostnames resolve to two addresses
    return LifeHarness(
        noise=noise,
        seed=seed,
        atoms=ATOMS_NOISE if noise else ATOMS_PLAIN,
        pairs=PAIRS,
        user=("start", "finish", "disc", "force", "cancel"),
        misuse=False,
        oracles=(C09Oracle(n_addr),),
        addresses=addresses,
        dns_answer=("10.0.0.7", "10.0.0.8"),
        legal_only=True,
        etimedout=True,
    )


# ------------------------------------------------------------------------------------------------------
# first-cause differential sweep
# ------------------------------------------------------------------------------------------------------
F1_CAUSES: tuple[tuple[str, ...], ...] = tuple((x,) for x in (
    "c:ENC", "c:ENC1", "c:PRE", "c:BAD", "c:BV", "c:BP", "c:DR", "c:TAMPER", "c:NHE", "eof", "rst", "force", "time", "tcp:err",
    "tcp:okrst", "dns:fail", "cancel:start", "cancel:finish", "cancel:req")) + (("disc", "time"),)
F2_EVENTS = ("eof", "rst", "force", "disc", "time", "c:BAD", "c:PRE", "c:DR", "c:ST", "c:ENC", "cancel:start", "cancel:finish",
             "cancel:req", "wf:sync", "tcp:err", "tcp:ok")
DIFF_SEEDS = (
    (False, "connecting", ("10.0.0.1",)),
    (False, "opened", ("10.0.0.1",)),
    (False, "hello_sent", ("10.0.0.1",)),
    (False, "req_pending", ("10.0.0.1",)),
    (False, "req_disc_pending", ("10.0.0.1",)),
    (False, "disc_pending", ("10.0.0.1",)),
    (False, "pong_due", ("10.0.0.1",)),
    (True, "hswait", ("10.0.0.1",)),
    (True, "hello_sent", ("10.0.0.1",)),
    (True, "req_pending", ("10.0.0.1",)),
    (True, "req_disc_pending", ("10.0.0.1",)),
)
# Error classes that the property statements name for specific first causes (C04, C06, C09, C10, C11).  Applied to every
# connect-phase or request-response call that is pending when the cause takes effect.
NAMED = {
    "c:ENC": "RequiresEncryptionAPIError",
    "c:ENC1": "RequiresEncryptionAPIError",  # the marker byte alone decides; what follows it (or never arrives) does not matter
    "c:PRE": "ProtocolAPIError",
    "c:BAD": "ProtocolAPIError",
    "c:TAMPER": "InvalidEncryptionKeyAPIError",
    "c:NHE": "InvalidEncryptionKeyAPIError",
    "eof": "SocketClosedAPIError",
    "disc+time": "TimeoutAPIError",  # disconnect() gave up waiting for the connect phase: that timeout is the fatal cause
}



def _classes(w: LifeWorld, names: list[str]) -> dict[str, str]:
    return {n: (w.outcome(n) or "pending") for n in names}


def _run_seq(cfg: tuple[bool, str, tuple[str, ...]], labels: list[Any], n_first: int = 1) -> dict[str, Any] | None:
    """Apply labels; the first n_first of them are the (possibly composite) first cause."""
    h = factory(*cfg)
    w = h.fresh()
    try:
        pend0 = [n for n in w.tasks if w.pending(n)]
        after_first: dict[str, str] = {}
        closed_after_first = False
        for i, lab in enumerate(labels):
            en = h.enabled(w)
            if lab not in en:
                if i < n_first:
                    return None
                continue  # F2 not applicable any more (e.g. socket already closed): history = F1 alone
            h.apply(w, lab)
            if i == n_first - 1:
                after_first = _classes(w, pend0)
                closed_after_first = w.state() == "CLOSED"
        viol = h.verdict(w) or h.finish(w)
        return {"pending_at_S": pend0, "classes": _classes(w, pend0), "viol": [x for x in viol if x.startswith("C09")],
                "log": list(w.log), "state": w.state(), "after_first": after_first, "closed_after_first": closed_after_first}
    finally:
        h.close(w)


# rejecting answers of the device: the answer itself is the cause, from the moment it has been read - also when the connect task has not
# yet woken up to evaluate it and something else goes wrong in that very loop turn
VERDICTS = ("c:BV", "c:BP")


def _diff_job(args: tuple[Any, ...]) -> dict[str, Any]:
    env.load()
    cfg, f1 = args
    f1 = list(f1)
    name = "+".join(f1)
    nf = len(f1)
    out: dict[str, Any] = {"cfg": cfg, "f1": name, "runs": 0, "viol": [], "compared": 0, "named": 0}
    base = _run_seq(cfg, f1, nf)
    if base is None or not base["pending_at_S"]:
        return out
    out["runs"] += 1
    if base["viol"]:
        out["viol"].append({"clause": base["viol"][0], "labels": f1, "n_first": nf, "log": base["log"]})
    # F1 must actually end the pending operations for the comparison to mean anything
    # (judged right after F1 was processed, before any time passes)
    fatal = all(c != "pending" for c in base["after_first"].values())
    if not fatal:
        if name in NAMED and name != "disc+time" and any(n in ("finish", "req") for n in base["after_first"]):
            # a cause the property statements name is fatal the moment it is processed
            out["viol"].append({"clause": f"C09:first-cause:{name} was processed, but the operations waiting at that moment are still waiting "
                                          f"({base['after_first']}); expected them to end with {NAMED[name]}", "labels": f1, "n_first": nf, "log": base["log"]})
        return out
    if name in NAMED:
        for n, c in base["classes"].items():
            if n in ("finish", "req"):
                out["named"] += 1
                if c != "exc:" + NAMED[name]:
                    out["viol"].append({"clause": f"C09:first-cause:{n} pending when {name} happened ended {c}, expected {NAMED[name]}",
                                        "labels": f1, "n_first": nf, "log": base["log"]})
    for f2 in F2_EVENTS:
        if f2 in f1:
            continue
        for nd in (False, True):
            if nd and f1[-1] == "time":
                continue
            labels: list[Any] = f1[:-1] + [["nd", f1[-1]] if nd else f1[-1], f2]
            r = _run_seq(cfg, labels, nf)
            if r is None:
                continue
            out["runs"] += 1
            if r["viol"]:
                out["viol"].append({"clause": r["viol"][0], "labels": labels, "n_first": nf, "log": r["log"]})
            if nd and not r["closed_after_first"] and name not in VERDICTS:
                # the library has not seen F1 yet after one loop iteration (e.g. a reset is reported to the protocol one
                # turn later): whatever comes next is the first cause from its point of view - nothing to compare
                continue
            for n, c in base["classes"].items():
                out["compared"] += 1
                # an operation the harness itself cancels afterwards may end cancelled-by-caller
                if f2 == f"cancel:{n}":
                    continue
                if r["classes"].get(n) != c:
                    out["viol"].append({
                        "clause": f"C09:first-cause:{n} ends {r['classes'].get(n)} when {name} is followed by {f2}"
                                  f"{' in the same turn' if nd else ''}, but {c} after {name} alone",
                        "labels": labels, "n_first": nf, "log": r["log"]})
    return out


def diff_sweep(res: Result) -> dict[str, Any]:
    jobs = [(cfg, f1) for cfg in DIFF_SEEDS for f1 in F1_CAUSES]
    ctx = mp.get_context("fork")
    with ctx.Pool(min(16, os.cpu_count() or 1)) as pool:
        outs = pool.map(_diff_job, jobs, chunksize=1)
    runs = sum(o["runs"] for o in outs)
    compared = sum(o["compared"] for o in outs)
    fatal_pairs = sum(1 for o in outs if o["compared"])
    for o in outs:
        for v in o["viol"]:
            noise, sd, addrs = o["cfg"]
            kind = ":".join(v["clause"].split(":")[:2])
            res.add(f"diff:{'noise' if noise else 'plain'}:{sd}:{kind}:{v['labels']}", v["clause"],
                    {"harness": "c09-diff", "cfg": [noise, sd, list(addrs)], "labels": v["labels"], "n_first": v["n_first"], "log": v["log"]})
    return {"diff_runs": runs, "diff_comparisons": compared, "diff_state_cause_pairs_with_pending_ops": fatal_pairs,
            "named_first_cause_checks": sum(o["named"] for o in outs)}


def interrupt_sweep(res: Result) -> int:
    """Every rejecting answer of the connect phase x every way the caller or the connection can be interrupted in the very same loop turn:
    finish_connection must still end with an error from the library's hierarchy (or the cancellation the caller asked for)."""
    import asyncio

    from aioesphomeapi.core import APIConnectionError

    from ..world import ConnWorld

    n = 0
    answers = ("bad-name", "bad-version", "bad-password", "wrong-psk", "error-frame", "enc-marker", "garbage", "eof")
    interrupts = ("none", "cancel-same-turn", "cancel-before", "cancel-next-turn", "force-same-turn", "disc-same-turn", "eof-same-turn",
                  "garbage-same-segment")
    # when a second *failure* follows the rejecting answer (in the same segment, or as the very next event), the answer was the first cause
    first_cause_class = {"bad-name": "BadNameAPIError", "bad-version": "APIConnectionError", "bad-password": "InvalidAuthAPIError",
                         "wrong-psk": "InvalidEncryptionKeyAPIError", "error-frame": "InvalidEncryptionKeyAPIError",
                         "enc-marker": "RequiresEncryptionAPIError"}
    for noise in (True, False):
        for ans in answers:
            if ans in ("wrong-psk", "error-frame") and not noise:
                continue
            if ans == "enc-marker" and noise:
                continue
            for intr in interrupts:
                for login in (True, False):
                    kw: dict[str, Any] = {"noise": noise, "login": login, "expected_name": "dev"}
                    if ans == "bad-name":
                        kw["device_name"] = "other"
                    if ans == "wrong-psk":
                        kw["device_psk"] = b"\x07" * 32
                    w = ConnWorld(**kw)
                    try:
                        w.do_start()
                        w.do_tcp_ok()
                        w.do_finish_call()
                        s = w.sock
                        assert s is not None
                        if ans == "eof":
                            data = None
                        elif ans == "enc-marker":
                            data = b"\x01\x00\x00"
                        elif ans == "garbage":
                            data = b"\x7f\x7f\x7fgarbage" if not noise else b"\x00\x00\x01x"
                        elif ans == "error-frame":
                            from .. import noise_ref

                            assert w.ndev is not None
                            w._feed_noise(s)
                            data = w.ndev.hello_frame() + noise_ref.outer(b"\x01Handshake MAC failure")
                        else:
                            data = w.noise_handshake_bytes() if noise else b""
                            if not (noise and ans in ("bad-name", "wrong-psk")):
                                hello = w.hello_resp(major=3) if ans == "bad-version" else w.hello_resp()
                                data += w.dframe(hello) + w.dframe(w.connect_resp(invalid=(ans == "bad-password")))
                        if intr == "garbage-same-segment":
                            if data is None or ans == "garbage":
                                continue
                            if noise and w.ndev is not None and w.ndev.r.tx is not None and ans not in ("wrong-psk", "error-frame", "bad-name"):
                                data += w.ndev.data_frame(1, b"\xff\xff\xff")  # a frame that decrypts but is no HelloResponse... undecodable payload
                            else:
                                data += b"\x7f\x7f\x7fgarbage" if not noise else b"\x00\x00\x01x"
                        if intr == "cancel-before":
                            w.cancel("finish")
                        if data is None:
                            w.io_eof(s)
                        else:
                            w.io_chunk(s, data)
                        w.step()
                        if intr == "cancel-same-turn":
                            w.cancel("finish")
                        elif intr == "force-same-turn":
                            try:
                                w.conn.force_disconnect()
                            except Exception as e:  # noqa: BLE001
                                res.add(f"interrupt:{'noise' if noise else 'plain'}:{ans}:{intr}:force-raises",
                                        f"C09:unclassified:force_disconnect() raised {type(e).__name__}: {e} - device answered {ans}, login={login}",
                                        {"noise": noise, "answer": ans, "interrupt": intr, "login": login})
                        elif intr == "disc-same-turn":
                            w.spawn("disc", w.conn.disconnect)
                        elif intr == "eof-same-turn" and not s.closed:
                            w.io_eof(s)
                        elif intr == "cancel-next-turn":
                            w.step()
                            if w.pending("finish"):
                                w.cancel("finish")
                        w.drain()
                        w.run_timers(w.loop.time() + 100.0)
                        n += 1
                        r = w.results.get("finish")
                        key = f"interrupt:{'noise' if noise else 'plain'}:{ans}:{intr}"
                        d = {"noise": noise, "answer": ans, "interrupt": intr, "login": login}
                        if r is None:
                            res.add(key + ":hang", f"C09:hang:finish_connection never ended ({d})", d)
                        elif r[0] == "ok":
                            if ans not in ("bad-password",) or login:
                                res.add(key + ":ok", f"C09:unclassified:finish_connection succeeded although the device answered {ans} ({d})", d)
                        elif r[0] == "cancelled":
                            if not intr.startswith("cancel"):
                                res.add(key + ":cancelled", f"C09:unclassified:finish_connection ended cancelled although nobody cancelled it ({d})", d)
                        elif (intr in ("garbage-same-segment", "eof-same-turn", "none") and ans in first_cause_class
                              # (over Noise this sweep sends the hello/login answers in the handshake's segment, before the client asked:
                              # only the answers decided by the handshake itself are judged there)
                              and (not noise or ans in ("bad-name", "wrong-psk", "error-frame"))
                              and not (ans == "bad-password" and not login) and type(r[1]).__name__ != first_cause_class[ans]):
                            res.add(key + ":first-cause", f"C09:first-cause:the device answered {ans} ({'then ' + intr if intr != 'none' else 'nothing else'}): "
                                    f"finish_connection ended {type(r[1]).__name__}, expected {first_cause_class[ans]} ({d})", d)
                        elif not isinstance(r[1], (APIConnectionError, asyncio.CancelledError)):
                            res.add(f"interrupt:{'noise' if noise else 'plain'}:{ans}:{intr}:{type(r[1]).__name__}",
                                    f"C09:unclassified:finish_connection raised {type(r[1]).__name__}: {r[1]} - device answered {ans}, "
                                    f"interrupt {intr} ({d})", d)
                    finally:
                        w.close()
    return n


# ------------------------------------------------------------------------------------------------------
# two callers of the same awaited client operation, one of them gives up
# ------------------------------------------------------------------------------------------------------
ADDR_BT = 0x112233445566


def _shared_methods(pb: Any) -> list[tuple[str, Any, Any]]:
    """(name, call(client) -> awaitable, answers() -> device messages completing ONE such request)."""
    return [
        ("device_info", lambda c: c.device_info(), lambda: [pb.DeviceInfoResponse(name="dev", mac_address="AA:BB")]),
        ("list_entities_services", lambda c: c.list_entities_services(),
         lambda: [pb.ListEntitiesSensorResponse(key=1, object_id="s", name="S"), pb.ListEntitiesDoneResponse()]),
        ("bluetooth_gatt_get_services", lambda c: c.bluetooth_gatt_get_services(ADDR_BT),
         lambda: [pb.BluetoothGATTGetServicesResponse(address=ADDR_BT), pb.BluetoothGATTGetServicesDoneResponse(address=ADDR_BT)]),
        ("bluetooth_gatt_read", lambda c: c.bluetooth_gatt_read(ADDR_BT, 5, timeout=10.0),
         lambda: [pb.BluetoothGATTReadResponse(address=ADDR_BT, handle=5, data=b"xy")]),
        ("bluetooth_device_pair", lambda c: c.bluetooth_device_pair(ADDR_BT, timeout=10.0),
         lambda: [pb.BluetoothDevicePairingResponse(address=ADDR_BT, paired=True)]),
        ("get_voice_assistant_configuration", lambda c: c.get_voice_assistant_configuration(10.0),
         lambda: [pb.VoiceAssistantConfigurationResponse(max_active_wake_words=1)]),
    ]


def shared_call_sweep(res: Result, only: str | None = None) -> int:
    """Two parts of an application await the same client operation at the same time and one of them gives up (is cancelled) - before
    the device answers, in the loop turn in which the answer arrives, or between the parts of a multi-part answer.  The other caller
    asked for no cancellation: it ends exactly as it does when it is alone (differential), with its result.  The device answers every
    request it actually received."""
    from aioesphomeapi.core import APIConnectionError as _ACE

    from ..world import ConnWorld

    pb = env.pb()
    n = 0
    for noise in (False, True):
        for mname, call, answers in _shared_methods(pb):
            for when in ("alone", "before-answer", "same-turn-as-answer", "between-parts", "victim-first:before-answer", "victim-first:same-turn-as-answer"):
                key = f"shared-call:{'noise' if noise else 'plain'}:{mname}:{when}"
                if only is not None and key != only and when != "alone":
                    continue
                w = ConnWorld(client=True, noise=noise, keepalive=1e6, login=True)
                try:
                    if noise:
                        w.connect_fully_split()
                    else:
                        w.connect_fully()
                    cl = w.client
                    n0 = len(w.sent_frames())
                    victim_first = when.startswith("victim-first:")
                    phase = when.split(":")[-1]
                    order = ["quitter", "stayer"] if not victim_first else ["stayer", "quitter"]
                    if when == "alone":
                        order = ["stayer"]
                    for nm in order:
                        w.spawn(nm, lambda c=call: c(cl))
                    w.drain()
                    n_req = len(w.sent_frames()) - n0  # requests the device actually received
                    parts = answers()
                    if phase == "before-answer":
                        w.cancel("quitter")
                        w.drain()
                    for r in range(max(1, n_req)):
                        for i, m in enumerate(parts):
                            w.io_chunk(w.sock, w.dframe(m))
                            if r == 0 and ((phase == "same-turn-as-answer" and i == len(parts) - 1) or (phase == "between-parts" and i == 0 and len(parts) > 1)):
                                w.step()
                                if w.pending("quitter"):
                                    w.cancel("quitter")
                            w.drain()
                    w.drain()
                    if w.pending("stayer"):
                        w.run_timers(w.loop.time() + 120.0)
                    n += 1
                    r_ = w.results.get("stayer")
                    shape = None if r_ is None else (r_[0], type(r_[1]).__name__, repr(r_[1])[:200] if r_[0] == "ok" else str(r_[1])[:120])
                    if when == "alone":
                        base = shape
                        if shape is None or shape[0] != "ok":
                            raise HarnessError(f"{key}: the undisturbed call did not succeed: {shape}")
                        continue
                    d = {"harness": "c09-shared", "noise": noise, "method": mname, "when": when}
                    if r_ is None:
                        res.add(key, f"C09:hang:{mname}: the caller that did not give up never got its answer (the other caller was cancelled {when})", d)
                    elif r_[0] == "cancelled":
                        res.add(key, f"C09:foreign-cancellation:{mname}: a cancellation the caller did not request reached it (the other caller was cancelled {when})", d)
                    elif r_[0] == "exc" and not isinstance(r_[1], _ACE):
                        res.add(key, f"C09:unclassified:{mname}: raised {type(r_[1]).__name__}: {str(r_[1])[:90]} (the other caller was cancelled {when})", d)
                    elif shape != base:
                        res.add(key, f"C09:disturbed:{mname}: ended {shape}, alone it ends {base} (the other caller was cancelled {when})", d)
                    elif getattr(getattr(cl, "_connection", None), "is_connected", False) is not True:
                        res.add(key, f"C09:disturbed:{mname}: the session is gone afterwards", d)
                finally:
                    w.close()
    return n


def benign_sweep(res: Result, only: str | None = None) -> int:
    """No fault at all: a well-behaved device answers while user listeners call back into the library from inside the dispatch
    (unsubscribe themselves, unsubscribe each other, start a new request).  Every awaited request then ends with its result and the
    connection stays up - an error would have no cause."""
    from aioesphomeapi.core import APIConnectionError as _ACE0

    from ..world import ConnWorld, mk

    pb = env.pb()
    n = 0
    listeners = ("none", "self-unsub-DI", "self-unsub-ST", "unsub-other-ST", "start-request-in-DI", "start-request-in-ST", "resubscribe-ST")
    for noise in (False, True):
        for lst in listeners:
            for outstanding in (False, True):
                for one_chunk in (False, True):
                    key = f"benign:{'noise' if noise else 'plain'}:{lst}:{'req-outstanding' if outstanding else 'idle'}:{'one-chunk' if one_chunk else 'separate'}"
                    if only is not None and key != only:
                        continue
                    w = ConnWorld(noise=noise, keepalive=1e6)
                    try:
                        if noise:
                            w.connect_fully_split()
                        else:
                            w.connect_fully()
                        conn = w.conn
                        seen: list[str] = []
                        unsubs: dict[str, Any] = {}

                        def request(name: str) -> None:
                            w.spawn(name, lambda: conn.send_message_await_response(mk("DeviceInfoRequest"), pb.DeviceInfoResponse, 10.0))

                        def make(tag: str, action: str) -> Any:
                            def cb(msg: Any) -> None:
                                seen.append(tag)
                                if action == "self" and tag in unsubs:
                                    unsubs.pop(tag)()
                                elif action == "other" and "victim" in unsubs:
                                    unsubs.pop("victim")()
                                elif action == "request" and "inner" not in w.tasks:
                                    request("inner")
                                elif action == "resub" and tag in unsubs:
                                    unsubs.pop(tag)()
                                    unsubs[tag] = conn.add_message_callback(cb, (pb.SensorStateResponse,))
                            return cb

                        if lst == "self-unsub-DI":
                            unsubs["l"] = conn.add_message_callback(make("l", "self"), (pb.DeviceInfoResponse,))
                        elif lst == "self-unsub-ST":
                            unsubs["l"] = conn.add_message_callback(make("l", "self"), (pb.SensorStateResponse,))
                        elif lst == "unsub-other-ST":
                            unsubs["l"] = conn.add_message_callback(make("l", "other"), (pb.SensorStateResponse,))
                            unsubs["victim"] = conn.add_message_callback(make("victim", "none"), (pb.SensorStateResponse,))
                        elif lst == "start-request-in-DI":
                            unsubs["l"] = conn.add_message_callback(make("l", "request"), (pb.DeviceInfoResponse,))
                        elif lst == "start-request-in-ST":
                            unsubs["l"] = conn.add_message_callback(make("l", "request"), (pb.SensorStateResponse,))
                        elif lst == "resubscribe-ST":
                            unsubs["l"] = conn.add_message_callback(make("l", "resub"), (pb.SensorStateResponse,))
                        if outstanding:
                            request("req")
                            w.drain()
                        frames = [w.dframe(mk("SensorStateResponse", key=1, state=1.0)), w.dframe(mk("DeviceInfoResponse", name="a")),
                                  w.dframe(mk("SensorStateResponse", key=1, state=2.0)), w.dframe(mk("DeviceInfoResponse", name="b"))]
                        for chunk in ([b"".join(frames)] if one_chunk else frames):
                            if w.sock is None or w.sock.closed:
                                break
                            w.io_chunk(w.sock, chunk)
                            w.drain()
                        w.run_timers(w.loop.time() + 30.0)
                        n += 1
                        d = {"key": key}
                        bad = None
                        if conn.connection_state.name != "CONNECTED":
                            bad = f"the connection ended ({conn.connection_state.name}) although the device behaved and nothing failed"
                        for name in w.tasks:
                            if w.outcome(name) != "ok":
                                bad = f"{name} ended {w.outcome(name)} although the device answered and nothing failed" + (f"; {bad}" if bad else "")
                        if lst.startswith("start-request") and "inner" not in w.tasks:
                            bad = "the listener was never called"
                        if bad:
                            res.add(key, f"C09:no-cause:{bad} (listener {lst}; callbacks seen {seen})", d)
                    finally:
                        w.close()
    # the stop callback reconnects at once (no timer in between) and the session ends through the application's own disconnect(): both
    # the disconnect() and the new connect() are awaited operations and end with their result
    for force in (False, True):
        for ender in ("disconnect", "device-request", "eof"):
            key = f"benign:plain:reconnect-in-stop-callback:{ender}:{'force' if force else 'graceful'}"
            if only is not None and key != only:
                continue
            if ender != "disconnect" and force:
                continue
            w = ConnWorld(client=True, keepalive=1e6, login=True)
            try:
                cl = w.client
                n_conn = [0]

                async def on_stop(expected: bool) -> None:
                    if n_conn[0] < 2:
                        n_conn[0] += 1
                        w.spawn(f"reconnect{n_conn[0]}", lambda: cl.connect(on_stop=on_stop, login=True))

                w.spawn("connect", lambda: cl.connect(on_stop=on_stop, login=True))
                w.drain()
                w.io_connect(w.sock, 0)
                w.drain()
                w.io_chunk(w.sock, w.dframe(w.hello_resp()) + w.dframe(w.connect_resp()))
                w.drain()
                if w.outcome("connect") != "ok":
                    raise HarnessError(f"{key}: connect failed {w.results}")
                first = w.sock
                if ender == "disconnect":
                    w.spawn("disc", lambda: cl.disconnect(force=force))
                    w.drain()
                    if not force and not first.closed:
                        w.io_chunk(first, w.dframe(mk("DisconnectResponse")))
                        w.drain()
                elif ender == "device-request":
                    w.io_chunk(first, w.dframe(mk("DisconnectRequest")))
                    w.drain()
                else:
                    w.io_eof(first)
                    w.drain()
                # the new attempt: TCP ok, hello, login
                for s2 in list(w.net.connecting()):
                    w.io_connect(s2, 0)
                w.drain()
                live = [x for x in w.net.sockets if not x.closed and x is not first]
                for s2 in live:
                    w.io_chunk(s2, w.dframe(w.hello_resp()) + w.dframe(w.connect_resp()))
                w.drain()
                w.run_timers(w.loop.time() + 100.0)
                n += 1
                d = {"key": key}
                for name in list(w.tasks):
                    r = w.results.get(name)
                    if r is None:
                        res.add(key, f"C09:hang:{name} never ended (session ended by {ender}, stop callback reconnects at once)", d)
                    elif r[0] == "exc" and not isinstance(r[1], _ACE0):
                        res.add(key, f"C09:unclassified:{name} raised {type(r[1]).__name__}: {str(r[1])[:90]} (session ended by {ender}, stop callback reconnects at once)", d)
                    elif r[0] != "ok" and name.startswith("reconnect"):
                        res.add(key, f"C09:no-cause:{name} ended {w.outcome(name)} although the device accepted the new connection", d)
                if "reconnect1" not in w.tasks:
                    res.add(key, "C09:no-cause:the stop callback was never invoked", d)
            finally:
                w.close()
    # request sizes: a request-response call whose request is small, large, at and beyond what one Noise frame can carry (65515 payload
    # bytes); beyond it the device cannot make sense of the frame and drops the link.  Result or classified error, never a raw one.
    from aioesphomeapi.core import APIConnectionError as _ACE

    for noise in (False, True):
        for size in (100, 16384, 65000, 65515, 65516, 65536, 70000, 200000):
            key = f"benign:{'noise' if noise else 'plain'}:request-size:{size}"
            if only is not None and key != only:
                continue
            w = ConnWorld(noise=noise, keepalive=1e6)
            try:
                if noise:
                    w.connect_fully_split()
                else:
                    w.connect_fully()
                conn = w.conn
                big = mk("BluetoothGATTWriteRequest", address=1, handle=2, response=True)
                big.data = bytes(size - len(big.SerializeToString()) - 4) if size > 64 else b""
                w.spawn("req", lambda: conn.send_message_await_response(big, pb.BluetoothGATTWriteResponse, 10.0))
                w.drain()
                fits = not noise or len(big.SerializeToString()) <= 65515
                if w.sock is not None and not w.sock.closed:
                    if fits:
                        w.io_chunk(w.sock, w.dframe(mk("BluetoothGATTWriteResponse", address=1, handle=2)))
                    else:
                        w.io_eof(w.sock)
                    w.drain()
                w.run_timers(w.loop.time() + 30.0)
                n += 1
                r = w.results.get("req")
                d = {"key": key}
                if r is None:
                    res.add(key, f"C09:hang:a request of {size} bytes never ended", d)
                elif r[0] == "exc" and not isinstance(r[1], _ACE):
                    res.add(key, f"C09:unclassified:a request of {size} bytes raised {type(r[1]).__name__}: {str(r[1])[:80]}", d)
                elif fits and r[0] != "ok":
                    res.add(key, f"C09:no-cause:a request of {size} bytes ended {w.outcome('req')} although the device answered and nothing failed", d)
                elif r[0] == "cancelled":
                    res.add(key, f"C09:cancelled:a request of {size} bytes ended cancelled", d)
            finally:
                w.close()
    return n


def run(tier: str, seed: int) -> Result:
    res = Result("C09", "fault_enumeration")
    diff = diff_sweep(res)
    diff["interrupt_sweep_runs"] = interrupt_sweep(res)
    diff["benign_reentrancy_runs"] = benign_sweep(res)
    diff["shared_call_runs"] = shared_call_sweep(res)
    total = Stats()
    cfgs: list[Any] = []
    q = tier == "quick"
    cfgs.append((False, "init", ("10.0.0.1",), 4 if q else 5, 1))
    cfgs.append((False, "init", ("dev.example.com",), 4 if q else 5, 1 if q else 2))
    cfgs.append((False, "init", ("10.0.0.1", "10.0.0.2"), 4 if q else 5, 0 if q else 1))
    for s in ("opened", "hello_sent", "req_pending", "disc_pending", "pong_due", "disc_gave_up"):
        cfgs.append((False, s, ("10.0.0.1",), 3 if q else 4, 1 if q else 2))
    for s in ("opened", "hswait", "hello_sent", "req_pending"):
        cfgs.append((True, s, ("10.0.0.1",), 3 if q else 4, 1 if q else 2))
    # the socket's connect() call itself raises, and not an OSError (OverflowError for a port above 65535; the resolver's UnicodeError for
    # an over-long label is of the same kind): still a classified error, still bounded
    cfgs.append((False, "init", ("10.0.0.1",), 3, 1, "weird-connect"))
    cfgs.append((False, "init", ("10.0.0.1", "10.0.0.2"), 3, 0 if q else 1, "weird-connect"))
    budget = 240.0 if q else 2400.0
    t_end = time.monotonic() + budget
    per_cfg = []
    from .. import world as _world

    for i, cfg in enumerate(cfgs):
        noise, sd, addrs, depth, bound = cfg[:5]
        opts = cfg[5] if len(cfg) > 5 else ""
        left = max(5.0, (t_end - time.monotonic()) / min(3, len(cfgs) - i))  # most configurations finish far below their share: a hungry one may take a third of what is left
        _world.CONNECT_EXC[0] = OverflowError("connect(): port must be 0-65535.") if opts == "weird-connect" else None
        try:
            st = explore_parallel(factory, (noise, sd, addrs), depth=depth, bound=bound, budget_s=left, split_depth=1)
        finally:
            _world.CONNECT_EXC[0] = None
        per_cfg.append({"noise": noise, "seed_state": sd, "addresses": list(addrs), "options": opts, "depth": depth, "deviation_bound": bound,
                        "executions": st.executions, "states": st.states, "time_capped": st.time_capped})
        for v in st.violations:
            clause = next((c for c in v["violated"] if c.startswith("C09")), None)
            if clause is None:
                continue
            kind = ":".join(clause.split(":")[:3])[:80]
            res.add(f"explore:{'noise' if noise else 'plain'}:{sd}:{','.join(addrs)}{':' + opts if opts else ''}:{kind}", clause,
                    {"harness": "lifecycle", "noise": noise, "seed_state": sd, "addresses": list(addrs), "opts": opts, "choices": v["choices"],
                     "violated": v["violated"], "observations": v["observations"]})
        total.merge(st)
    exc_classes = set()
    for k in total.outcomes:
        for part in k.split("|")[1].split(","):
            if "=exc:" in part:
                exc_classes.add(part.split("=exc:")[1])
    if not res.violations and (diff["diff_comparisons"] < 300 or len(exc_classes) < 8):
        raise HarnessError(f"vacuous: {diff} classes={exc_classes}")
    res.coverage = {
        "evaluations": total.executions + diff["diff_runs"],
        "distinct_nontrivial": total.states + diff["diff_comparisons"],
        "rule": "one evaluation = one complete execution with faults at the stated points, run to its virtual-time horizon and audited "
        "for hangs/late/unclassified endings; non-trivial = distinct state fingerprints + (operation, F1, F2, turn) comparisons made",
        **diff,
        "explored_executions": total.executions,
        "explored_states": total.states,
        "explored_transitions": total.transitions,
        "error_classes_observed": sorted(exc_classes),
        "configs": per_cfg,
        "exhaustive": not total.time_capped,
        "caps_hit": ["wall-clock budget"] if total.time_capped else [],
        "samples": total.samples[:2] + [{"first_cause_sweep": {"seeds": [list(map(str, c)) for c in DIFF_SEEDS[:3]], "F1": ["+".join(x) for x in F1_CAUSES[:6]], "F2": list(F2_EVENTS[:6])}}],
    }
    res.assumptions = [
        "bounds: start 30s resolve + 60s per configured/resolved address; finish 30s+30s; request 10s; disconnect 5s+10s (virtual time)",
        "only legal call sequences (finish only while the socket is opened); RuntimeError for API misuse is C05's subject",
        "error class is compared, not text",
    ]
    return res


def _replay_interrupt(rp: dict[str, Any]) -> bool:
    res = Result("C09", "fault_enumeration")
    interrupt_sweep(res)
    bad = [v for v in res.violations if v.key == rp["key"]]
    print(rp["key"], "->", [v.clause for v in bad] or "holds")
    return not bad


def replay(rp: dict[str, Any]) -> bool:
    if str(rp.get("key", "")).startswith("interrupt:"):
        return _replay_interrupt(rp)
    if str(rp.get("key", "")).startswith("shared-call:"):
        res = Result("C09", "fault_enumeration")
        shared_call_sweep(res, only=rp["key"])
        print(rp["key"], "->", [v.clause for v in res.violations] or "holds")
        return not res.violations
    if str(rp.get("key", "")).startswith("benign:"):
        res = Result("C09", "fault_enumeration")
        benign_sweep(res, only=rp["key"])
        print(rp["key"], "->", [v.clause for v in res.violations] or "holds")
        return not res.violations
    d = rp["detail"]
    if d.get("harness") == "c09-diff":
        cfg = (d["cfg"][0], d["cfg"][1], tuple(d["cfg"][2]))
        nf = int(d.get("n_first", 1))
        r = _run_seq(cfg, d["labels"], nf)
        for line in (r or {}).get("log", []):
            print(line)
        print("classes:", (r or {}).get("classes"), "viol:", (r or {}).get("viol"))
        print("(differential clause: compare with the history that has only the first label)")
        b = _run_seq(cfg, [x[1] if isinstance(x, list) else x for x in d["labels"][:nf]], nf)
        print("baseline classes:", (b or {}).get("classes"))
        return bool(r and b and r["classes"] == b["classes"] and not r["viol"])
    from .. import world as _world

    _world.CONNECT_EXC[0] = OverflowError("connect(): port must be 0-65535.") if d.get("opts") == "weird-connect" else None
    h = factory(d["noise"], d["seed_state"], tuple(d["addresses"]))
    w = h.fresh()
    try:
        v: list[str] = []
        for lab in d["choices"]:
            h.apply(w, lab)
            v = h.verdict(w)
            if v:
                break
        else:
            v = h.finish(w)
        for line in w.log:
            print(line)
        print("violated:", v)
        return not v
    finally:
        h.close(w)
