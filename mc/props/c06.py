"""C06 - sessions only with a compatible, correctly named, authenticated device."""

from __future__ import annotations

import itertools
import multiprocessing as mp
import os
from typing import Any

from .. import env
from ..evidence import Result
from ..vloop import HarnessError
from ..world import ConnWorld, mk

MAJORS = (0, 1, 2, 3, 4, 2**32 - 1)
MINORS = (0, 9, 10, 11)
EXPECTED = "mydev"
ORDERS = ("two-chunks", "one-chunk", "bytewise", "connect-first", "verdict-twice", "hello-twice", "one-chunk+DR", "then-DR")
# the answer is in the socket in time, but the loop is busy elsewhere and reads it only in the iteration of the request's deadline (30 s) or
# later: arrived data is processed before the timers that became due meanwhile, so the answer - not a time-out - decides
STALLED_ORDERS = ("one-chunk@30", "one-chunk@45")
NOISE_NAMES = ("absent", "equal", "different", "empty", "case", "not-utf8", "equal+mac", "different+mac")  # +mac: a further field behind the name
HELLO_NAMES = ("empty", "equal", "other", "case", "longer")  # near misses: names are compared exactly


def one_case(c: dict[str, Any]) -> dict[str, Any]:
    """Run APIClient.connect() against one device behaviour; return the violation (if any) and the outcome."""
    from aioesphomeapi.core import APIConnectionError, BadNameAPIError, InvalidAuthAPIError
    from aioesphomeapi.model import APIVersion

    noise = c["noise"]
    exp_name = EXPECTED if c["expected"] else None
    hello_name = {"empty": "", "equal": EXPECTED, "other": "otherdev", "case": "MyDev", "longer": "mydev1"}[c["name"]]
    nname = {"absent": None, "equal": EXPECTED, "different": "otherdev", "empty": "", "case": "MYDEV",
             "not-utf8": EXPECTED.encode() + b"\xff"}[c.get("noise_name", "equal").replace("+mac", "")]
    via_setter = c.get("via") == "setter"
    w = ConnWorld(noise=noise, client=True, expected_name=None if via_setter else exp_name, password="pw" if c["password"] else None,
                  login=c["login"], device_name=nname if noise else hello_name)
    stops: list[bool] = []
    if noise and c.get("noise_name", "").endswith("+mac"):
        assert w.ndev is not None
        w.ndev.mac = "aabbccddeeff"
    try:
        async def on_stop(expected: bool) -> None:
            stops.append(bool(expected))

        login = c["login"]
        if via_setter:
            # the expected name is configured through the property setter between the two connect phases
            async def two_phase() -> None:
                await w.client.start_connection(on_stop=on_stop)
                w.client.expected_name = exp_name
                await w.client.finish_connection(login=login)

            w.spawn("connect", two_phase)
        else:
            w.spawn("connect", lambda: w.client.connect(on_stop=on_stop, login=login))
        w.drain()
        w.io_connect(w.sock, 0)
        w.drain()
        sock = w.sock
        noise_reject = False
        cancel_at = c.get("cancel")  # the caller gives up (its own timeout) this many loop turns after the deciding bytes arrived
        cancelled = False

        def deliver_deciding(data: bytes) -> None:
            nonlocal cancelled
            w.io_chunk(sock, data)
            if cancel_at is not None and not cancelled:
                for _ in range(cancel_at):
                    w.step()
                if w.pending("connect"):
                    w.cancel("connect")
                cancelled = True
            w.drain()

        if noise:
            noise_reject = exp_name is not None and nname is not None and nname != exp_name
            if noise_reject:
                deliver_deciding(w.noise_handshake_bytes())
            else:
                w.io_chunk(sock, w.noise_handshake_bytes())
                w.drain()
        conn_ok = not c["invalid"]
        chunks: list[bytes] = []
        # a device answers what it is asked: after a server hello that must be refused a correct client asks nothing more, but if it
        # did send its hello request the (unsuspecting) device goes on exactly as it would otherwise
        client_went_on = False
        if noise and noise_reject:
            try:
                client_went_on = "HelloRequest" in w.sent_names()
            except Exception:  # noqa: BLE001
                client_went_on = False
        if not (noise and noise_reject) or client_went_on:
            order = c["order"]
            H = mk("HelloResponse", api_version_major=c["major"], api_version_minor=c["minor"], server_info="s", name=hello_name)
            CR = mk("ConnectResponse", invalid_password=c["invalid"])
            DR = mk("DisconnectRequest")
            # messages per chunk, in sending order (Noise frames carry consecutive nonces: frames are built in exactly this order)
            plan: list[list[Any]]
            if order == "two-chunks":
                plan = [[H]] + ([[CR]] if login else [])
            elif order == "one-chunk" or order in STALLED_ORDERS:
                plan = [[H] + ([CR] if login else [])]
            elif order == "one-chunk+DR":
                # the device's (possibly rejecting) answer and its disconnect request share one chunk
                plan = [[H] + ([CR] if login else []) + [DR]]
            elif order == "then-DR":
                plan = [[H] + ([CR] if login else []), [DR]]
            elif order == "bytewise":
                plan = [[H] + ([CR] if login else [])]
            elif order == "connect-first":
                plan = [[CR], [H]] if login else [[H], [CR]]  # without login: an unsolicited connect response after the hello
            elif order == "verdict-twice":
                # the first verdict decides; a second, contradicting one in the same chunk must not overturn it
                plan = [[H] + ([CR, mk("ConnectResponse", invalid_password=not c["invalid"])] if login else [])]
            elif order == "hello-twice":
                # a second hello (acceptable values) in the same chunk must not overturn the first one
                h2 = mk("HelloResponse", api_version_major=1, api_version_minor=10, server_info="s", name=EXPECTED if exp_name else hello_name)
                plan = [[H, h2] + ([CR] if login else [])]
            else:
                raise HarnessError(order)
            chunks = [b"".join(w.dframe(m) for m in ch) for ch in plan]
            if order == "bytewise":
                chunks = [chunks[0][i : i + 1] for i in range(len(chunks[0]))]
        for ch in chunks:
            if sock.closed:
                break
            if cancel_at is not None:
                deliver_deciding(ch)
                continue
            w.io_chunk(sock, ch)
            if c["order"] in STALLED_ORDERS:
                w.loop.advance_to(w.loop.time() + float(c["order"].split("@")[1]))
            w.drain()
        w.drain()
        out = w.outcome("connect")
        res = w.results.get("connect")
        # reference predicate
        name_ok = exp_name is None or hello_name == "" or hello_name == exp_name
        accept = c["major"] <= 2 and name_ok and (not login or conn_ok) and not noise_reject
        if login and c["order"] == "connect-first":
            accept = False  # a connect response before the hello: the hello was never validated
        # deviating devices the statement does not speak about: a duplicate hello after an acceptable one, or an 'invalid'
        # verdict after an 'ok' one - the client may accept or fail with a connection error, but never on the strength of
        # the *later* message when the first one must be rejected
        lenient = accept and ((c["order"] == "hello-twice") or (c["order"] == "verdict-twice" and login) or c["order"] == "one-chunk+DR")
        viol = None
        key = ",".join(f"{k}={v}" for k, v in c.items())
        conn = w.client._connection
        if cancel_at is not None:
            # the caller's own cancellation races the device's answer: cancelled, a connection error, or (too late) the normal result
            if out is None:
                w.run_timers(w.loop.time() + 100)
                out = w.outcome("connect")
                res = w.results.get("connect")
            exc = res[1] if res and res[0] == "exc" else None
            sent_name = nname if noise_reject else hello_name
            if out is None:
                viol = "connect neither returned nor raised within 100 s of being cancelled"
            elif out == "ok":
                if not accept:
                    viol = f"connect succeeded although the device must be rejected (cancel {cancel_at} turns after the answer)"
                elif conn is None or conn.connection_state.name != "CONNECTED":
                    viol = "connect returned but the connection is not in the connected state"
            elif exc is not None and not isinstance(exc, APIConnectionError):
                viol = f"connect raised {type(exc).__name__}, not a connection error"
            elif isinstance(exc, BadNameAPIError):
                if accept:
                    viol = f"bad-name error for an acceptable device (cancel {cancel_at} turns after the answer)"
                elif not isinstance(sent_name, bytes) and exc.received_name != sent_name:
                    viol = f"bad-name error carries {exc.received_name!r}, the device said {sent_name!r} (cancel {cancel_at} turns after the answer)"
            elif isinstance(exc, InvalidAuthAPIError) and accept:
                viol = f"invalid-auth error for an acceptable device (cancel {cancel_at} turns after the answer)"
            if viol is None and out != "ok":
                w.drain()
                w.run_timers(w.loop.time() + 200)
                if stops:
                    viol = f"stop callback invoked ({stops}) although the session was never established"
                elif any(not s.closed for s in w.net.sockets):
                    viol = "socket left open after the cancelled attempt"
                elif w.loop.live_timers():
                    viol = "timer left armed after the cancelled attempt"
                else:
                    w.spawn("again", lambda: w.client.start_connection())
                    w.drain()
                    if w.outcome("again") is not None and w.outcome("again") != "ok":
                        viol = f"client not reusable after the cancelled attempt: start_connection -> {w.outcome('again')}"
        elif lenient and out != "ok":
            exc = res[1] if res else None
            if out is None or not isinstance(exc, APIConnectionError):
                viol = f"deviating device: connect ended {out}, expected success or a connection error"
        elif accept:
            if out != "ok":
                viol = f"connect should succeed but ended {out}: {res[1] if res else None}"
            elif c["order"] == "then-DR":
                if stops != [True]:
                    viol = f"session established, then the device asked to disconnect: stop callback calls {stops}, expected [True]"
            elif conn is None or conn.connection_state.name != "CONNECTED":
                viol = "connect returned but the connection is not in the connected state"
            elif w.client.api_version != APIVersion(c["major"], c["minor"]):
                viol = f"negotiated version exposed as {w.client.api_version}, device said {c['major']}.{c['minor']}"
            elif hello_name and w.client.cached_name != hello_name:
                viol = f"device name exposed as {w.client.cached_name!r}, device said {hello_name!r}"
            elif stops:
                viol = "stop callback invoked although the session is alive"
        else:
            if out is None:
                # no decision yet is only acceptable if the client is legitimately still waiting
                still_waiting = login and c["order"] in ("connect-first",)
                w.run_timers(w.loop.time() + 100)
                out = w.outcome("connect")
                res = w.results.get("connect")
                if out is None:
                    viol = "connect neither returned nor raised within 100 s"
                del still_waiting
            if viol is None and out == "ok":
                viol = f"connect succeeded although the device must be rejected (major={c['major']}, name={hello_name!r}, expected={exp_name!r}, invalid={c['invalid']}, noise_name={nname!r})"
            elif viol is None:
                exc = res[1]  # type: ignore[index]
                if not isinstance(exc, APIConnectionError):
                    viol = f"connect raised {type(exc).__name__}, not a connection error"
                elif noise_reject and isinstance(nname, bytes):
                    pass  # a name that is not text is not the expected name; which connection error says so is not specified
                elif noise_reject:
                    if not isinstance(exc, BadNameAPIError) or getattr(exc, "received_name", None) != nname:
                        viol = f"expected bad-name error carrying {nname!r}, got {type(exc).__name__} ({getattr(exc, 'received_name', None)!r})"
                elif login and c["order"] == "connect-first":
                    pass  # class unconstrained
                elif c["major"] > 2:
                    if type(exc) is not APIConnectionError or str(c["major"]) not in str(exc):
                        viol = f"expected incompatible-version connection error naming {c['major']}, got {type(exc).__name__}: {exc}"
                elif not name_ok:
                    if not isinstance(exc, BadNameAPIError) or exc.received_name != hello_name:
                        viol = f"expected bad-name error carrying {hello_name!r}, got {type(exc).__name__}"
                elif login and not conn_ok and c["order"] == "hello-twice":
                    pass  # duplicate hello from a deviating device: some connection error, class unconstrained
                elif login and not conn_ok:
                    if not isinstance(exc, InvalidAuthAPIError):
                        viol = f"expected invalid-auth error, got {type(exc).__name__}: {exc}"
            if viol is None:
                # cleanup obligations after a rejection
                w.drain()
                w.run_timers(w.loop.time() + 200)
                if stops:
                    viol = f"stop callback invoked ({stops}) although the session was never established"
                elif any(not s.closed for s in w.net.sockets):
                    viol = "socket left open after the rejection"
                elif w.loop.live_timers():
                    viol = "timer left armed after the rejection"
                else:
                    w.spawn("again", lambda: w.client.start_connection())
                    w.drain()
                    if w.outcome("again") is not None and w.outcome("again") != "ok":
                        viol = f"client not reusable after the rejection: start_connection -> {w.outcome('again')}"
        return {"key": key, "viol": viol, "accept": accept, "outcome": out, "case": c}
    finally:
        w.close()


def _job(c: dict[str, Any]) -> dict[str, Any]:
    env.load()
    return one_case(c)


def cases(tier: str) -> list[dict[str, Any]]:
    out = []
    majors = MAJORS if tier == "quick" else tuple(sorted(set(MAJORS) | set(range(0, 12)) | {127, 128, 255, 256, 65535, 2**31 - 1, 2**31}))
    minors = MINORS if tier == "quick" else tuple(sorted(set(MINORS) | set(range(0, 16)) | {255, 65535, 2**32 - 1}))
    for major, minor, name, expected, login, password, invalid, order in itertools.product(
        majors, minors, HELLO_NAMES, (False, True), (False, True), (False, True), (False, True), ORDERS
    ):
        if not login and (invalid and order not in ("connect-first",)):
            continue  # no verdict is sent without login (except the unsolicited one)
        if tier == "quick" and minor in (9, 11) and major in (0, 4) and order in ("bytewise", "hello-twice"):
            continue
        out.append({"noise": False, "major": major, "minor": minor, "name": name, "expected": expected, "login": login,
                    "password": password, "invalid": invalid, "order": order})
    # the expected name configured through the setter after start_connection(): same verdicts
    for noise_flag in (False, True):
        for major, name, login, invalid, order, nn in itertools.product((1, 3), HELLO_NAMES, (False, True), (False, True),
                                                                        ("two-chunks", "one-chunk", "one-chunk+DR"), NOISE_NAMES if noise_flag else ("equal",)):
            if not login and invalid:
                continue
            cfg = {"noise": noise_flag, "major": major, "minor": 10, "name": name, "expected": True, "login": login, "password": False,
                   "invalid": invalid, "order": order, "via": "setter"}
            if noise_flag:
                cfg["noise_name"] = nn
            out.append(cfg)
    noise_orders = ORDERS
    noise_majors = (0, 1, 2, 3, 4, 2**32 - 1)
    for nn, major, name, expected, login, invalid, order in itertools.product(
        NOISE_NAMES, noise_majors, HELLO_NAMES, (False, True), (False, True), (False, True), noise_orders
    ):
        if not login and invalid:
            continue
        if nn == "not-utf8" and not expected:
            continue  # nothing is specified for a device whose announced name is not text when no name is expected
        out.append({"noise": True, "noise_name": nn, "major": major, "minor": 10, "name": name, "expected": expected, "login": login,
                    "password": False, "invalid": invalid, "order": order})
    for noise_flag in (False, True):
        for nn, major, name, expected, login, invalid, order in itertools.product(
            ("absent", "equal") if noise_flag else ("equal",), (1, 3), HELLO_NAMES, (False, True), (False, True), (False, True), STALLED_ORDERS
        ):
            if not login and invalid:
                continue
            cfg = {"noise": noise_flag, "major": major, "minor": 10, "name": name, "expected": expected, "login": login,
                   "password": False, "invalid": invalid, "order": order}
            if noise_flag:
                cfg["noise_name"] = nn
            out.append(cfg)
    # the caller cancels connect() 0..3 loop turns after the deciding bytes arrived (same-turn races between the answer and a timeout)
    for noise_flag in (False, True):
        for nn, major, name, expected, login, invalid, k in itertools.product(
            NOISE_NAMES if noise_flag else ("equal",), (1, 3), HELLO_NAMES, (False, True), (False, True), (False, True), (0, 1, 2, 3)
        ):
            if (not login and invalid) or (nn == "not-utf8" and not expected):
                continue
            cfg = {"noise": noise_flag, "major": major, "minor": 10, "name": name, "expected": expected, "login": login,
                   "password": False, "invalid": invalid, "order": "one-chunk", "cancel": k}
            if noise_flag:
                cfg["noise_name"] = nn
            out.append(cfg)
    return out


def run(tier: str, seed: int) -> Result:
    res = Result("C06", "exploration")
    cs = cases(tier)
    ctx = mp.get_context("fork")
    with ctx.Pool(min(16, os.cpu_count() or 1)) as pool:
        outs = pool.map(_job, cs, chunksize=64)
    acc = sum(1 for o in outs if o["accept"])
    rej = len(outs) - acc
    outcomes = {(o["accept"], o["outcome"]) for o in outs}
    for o in outs:
        if o["viol"]:
            res.add(o["key"], o["viol"], {"harness": "c06", "case": o["case"]})
    if not res.violations and (acc < 200 or rej < 200 or len(outcomes) < 5):
        raise HarnessError(f"vacuous: accepted={acc} rejected={rej} outcomes={outcomes}")
    res.coverage = {
        "evaluations": len(outs),
        "distinct_nontrivial": rej,
        "rule": "one evaluation = one APIClient.connect() against one (version, names, login, password, verdict, order/chunking, framing) "
        "combination; non-trivial = combinations the reference predicate rejects (error class and cleanup obligations checked)",
        "accepted_by_reference": acc,
        "rejected_by_reference": rej,
        "distinct_outcomes": sorted(f"{a}:{b}" for a, b in outcomes),
        "exhaustive": True,
        "samples": [o["case"] for o in outs[:: max(1, len(outs) // 5)]][:5],
    }
    res.assumptions = [
        "accept = major <= 2 and (no expected name or device name empty or equal) and (no login or password not flagged invalid); "
        "for Noise additionally the hello-frame name must be absent or equal when an expected name is configured",
        "a connect response that arrives before the hello (with login) must fail with some connection error, class unconstrained",
    ]
    return res


def replay(rp: dict[str, Any]) -> bool:
    env.load()
    o = one_case(rp["detail"]["case"])
    print(o)
    return o["viol"] is None
