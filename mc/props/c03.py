"""C03 - Noise sessions interoperate with any conformant responder, for any chunking."""

from __future__ import annotations

import itertools
import multiprocessing as mp
import os
from typing import Any

from .. import env
from ..evidence import Result
from ..noise_sess import EXPECTED, NAME_VARIANTS, Session
from ..vloop import HarnessError
from ..world import mk


EARLY = ("ST", "PR")  # unsolicited frames right behind the handshake message: a state and a ping request


def run_session(name_variant: str, expected: bool, app: tuple[str, ...], cuts: tuple[int, ...], probe_send: bool = False,
                recycled: bool = False, listener: str = "", stall: float = 0.0, hello_name: str | None = None, b2b: bool = False) -> dict[str, Any]:
    """One fresh session (fresh client ephemeral key) whose server stream is cut at ``cuts``; () = one chunk, (-1,) = byte-wise."""
    from aioesphomeapi.core import APIConnectionError, BadNameAPIError

    exp = EXPECTED if expected else None
    Session.RECYCLED[0] = recycled
    s = Session(name_variant, exp, app, early=EARLY, listener=listener, hello_name=hello_name)
    w = s.w
    try:
        stream = s.stream()
        ends = s.ends()
        hs_end = ends[1]
        name, _mac = NAME_VARIANTS[name_variant]
        reject = exp is not None and name is not None and name != exp
        if cuts == (-1,):
            bounds = list(range(1, len(stream) + 1))
        else:
            # the responder answers the client's hello request only after it received it: forced chunk boundary at the barrier
            bounds = sorted(set([c for c in cuts if 0 < c < len(stream)] + [s.barrier, len(stream)]))
        pos = 0
        viol = None
        base_app = s.client_app_frames()
        for q in bounds:
            if probe_send and q <= hs_end and pos < hs_end and not reject:
                # before readiness an attempted send is refused with a connection error and writes nothing
                n_sent = len(s.sock.sent)
                try:
                    w.conn.send_messages((mk("PingRequest"),))
                    viol = f"send_messages accepted before the handshake completed (after {pos} server bytes)"
                except APIConnectionError:
                    if len(s.sock.sent) != n_sent:
                        viol = "refused send still wrote bytes"
                except Exception as e:  # noqa: BLE001
                    viol = f"send before readiness raised {type(e).__name__}, not a connection error"
                if viol:
                    break
            if s.sock.closed:
                break
            if stall and pos == 0:
                # the bytes have arrived, but the loop was busy elsewhere and looks at its sockets only ``stall`` seconds later - after the
                # handshake deadline has passed; arrived data is processed before the timers that became due meanwhile
                w.io_chunk(s.sock, stream[pos:q])
                w.loop.advance_to(w.loop.time() + stall)
                w.drain()
            elif b2b:
                # back to back: the next chunk is readable in the very next loop iteration (nothing but that one iteration in between)
                w.io_chunk(s.sock, stream[pos:q])
                w.step()
                if q == s.barrier:
                    w.drain()  # the responder answers the client's hello request only after it has received it
            else:
                s.deliver(stream[pos:q])
            pos = q
            if s.deliver_error is not None:
                viol = f"a transport that recycles its receive buffer: delivering bytes [{pos}] failed with {s.deliver_error}"
                break
            if reject:
                if pos >= ends[0]:
                    break
                continue
            # readiness: the client's first application frames appear exactly with the chunk completing the handshake frame
            try:
                sent_app = s.client_app_frames() - base_app
            except Exception as e:  # noqa: BLE001
                viol = f"client output does not decrypt at the responder: {type(e).__name__}: {e}"
                break
            if b2b and q != s.barrier:
                pass  # the client's first frames are written by its connect task, one iteration after the handshake frame was read
            elif (sent_app > 0) != (q >= hs_end):
                viol = (f"after {q} server bytes (handshake frame ends at {hs_end}) the client has written {sent_app} application frames: "
                        f"readiness {'too early' if q < hs_end else 'missing'}")
                break
            # deliveries after this chunk = data frames completely received so far, in order
            n_exp = sum(1 for e in ends[2:] if e <= q)
            got = s.probe.calls
            want_plain = [p for p in s.plain[:n_exp] if p[0] != "-"]
            if listener and not viol:
                first = [p[1] for p in s.plain[:n_exp] if p[0] == "SensorStateResponse"][:1]
                if s.oneshot_calls != first:
                    viol = (f"after {q} server bytes: the one-shot listener (unsubscribes itself inside its first call) was called "
                            f"{len(s.oneshot_calls)} times, {len(first)} expected")
                    break
            if got != want_plain:
                viol = (f"after {q} server bytes: {len(got)} messages delivered ({[g[0] for g in got]}), the responder has completely sent "
                        f"{n_exp} ({[p[0] for p in s.plain[:n_exp]]}){' [listener=' + listener + ']' if listener else ''}")
                break
        w.drain()
        out = w.outcome("finish")
        res = w.results.get("finish")
        if viol is None:
            if reject:
                exc = res[1] if res else None
                if isinstance(name, bytes):
                    # not text: refused with some connection error (which class says so is not specified), nothing delivered
                    if out is None or not isinstance(exc, APIConnectionError):
                        viol = f"announced name {name!r} (not text) vs expected {exp!r}: finish ended {out}; expected a connection error"
                    elif s.probe.calls:
                        viol = "messages delivered although the session was refused"
                elif out is None or not isinstance(exc, BadNameAPIError) or exc.received_name != name:
                    viol = f"name {name!r} vs expected {exp!r}: finish ended {out} ({getattr(exc, 'received_name', None)!r}); expected bad-name carrying {name!r}"
                elif s.probe.calls:
                    viol = "messages delivered although the session was refused"
            else:
                if out != "ok":
                    viol = f"finish_connection ended {out}: {res[1] if res else None}"
                elif w.conn.connection_state.name != "CONNECTED":
                    viol = "not connected after the complete stream"
                else:
                    names = w.sent_names()
                    want = ["HelloRequest", "ConnectRequest"] + ["PingResponse"] * sum(1 for k in app if k == "PR")
                    # a ping request that arrives before the connect phase is over may or may not be answered (C12 says when)
                    extra = sum(1 for k in EARLY if k == "PR")
                    while extra and names.count("PingResponse") > want.count("PingResponse"):
                        names.remove("PingResponse")
                        extra -= 1
                    if names != want:
                        viol = f"client frames decrypted by the responder: {names}, expected {want}"
        return {"viol": viol, "n": len(stream), "chunks": len(bounds), "ends": ends, "reject": reject}
    finally:
        s.close()


def _job(args: tuple[Any, ...]) -> tuple[Any, dict[str, Any]]:
    env.load()
    return args, run_session(*args)


def stream_layout(name_variant: str, expected: bool, app: tuple[str, ...]) -> tuple[int, list[int]]:
    r = run_session(name_variant, expected, app, ())
    return r["n"], r["ends"]


def run(tier: str, seed: int) -> Result:
    env.load()
    res = Result("C03", "exploration")
    q = tier == "quick"
    jobs: list[tuple[Any, ...]] = []
    # 1. name rule: every (announced name, expected) combination, whole / byte-wise / every single cut in the hello+handshake
    for nv in NAME_VARIANTS:
        for exp in (False, True):
            if isinstance(NAME_VARIANTS[nv][0], bytes) and not exp:
                continue  # nothing is specified for a device whose announced name is not text when no name is expected
            n, ends = stream_layout(nv, exp, ("ST",))
            jobs.append((nv, exp, ("ST",), (), False))
            jobs.append((nv, exp, ("ST",), (-1,), True))
            for c in range(1, ends[1] + 2):
                jobs.append((nv, exp, ("ST",), (c,), True))
    # 1b. the server hello decides: a device whose (later, authenticated) HelloResponse carries no name is still accepted
    for nv in ("absent", "equal", "equal+mac", "empty"):
        for exp in (False, True):
            if nv == "empty" and exp:
                continue
            jobs.append((nv, exp, ("ST", "PR"), (), False, False, "", 0.0, ""))
            jobs.append((nv, exp, ("ST", "PR"), (-1,), False, False, "", 0.0, ""))
    # 2. chunking: all segmentations with <= 2 cuts of a session with application frames
    app = ("ST", "PR", "TX") if q else ("ST", "PR", "LOG")
    n, ends = stream_layout("equal", True, app)
    positions = list(range(1, n))
    jobs.append(("equal", True, app, (), False))
    jobs.append(("equal", True, app, (-1,), True))
    for c in positions:
        jobs.append(("equal", True, app, (c,), True))
    # the same single cuts, byte-wise delivery and 3-byte reads through a transport that recycles one bytearray receive buffer
    jobs.append(("equal", True, app, (), False, True))
    jobs.append(("equal", True, app, (-1,), False, True))
    for c in positions:
        jobs.append(("equal", True, app, (c,), False, True))
    jobs.append(("equal", True, app, tuple(range(3, n, 3)), False, True))
    jobs.append(("absent", False, app, tuple(range(5, n, 5)), False, True))
    pair_pos = positions if (not q or n <= 230) else sorted(set(
        [p for p in positions if any(abs(p - e) <= 6 for e in ends)] + list(range(1, ends[1] + 8)) + positions[::3]))
    for a, b in itertools.combinations(pair_pos, 2):
        jobs.append(("equal", True, app, (a, b), False))
    # 2b. the same single cuts and byte-wise delivery with the chunks arriving back to back (one loop iteration apart)
    jobs.append(("equal", True, app, (-1,), False, False, "", 0.0, None, True))
    for c in positions:
        jobs.append(("equal", True, app, (c,), False, False, "", 0.0, None, True))
    for a, b in itertools.combinations(sorted(set(range(1, ends[1] + 8)) | {e + d for e in ends for d in (-1, 0, 1) if 0 < e + d < n}), 2):
        jobs.append(("equal", True, app, (a, b), False, False, "", 0.0, None, True))
    # 3. all 2^(k-1) segmentations inside a 12-byte window sliding across every frame boundary (hello/handshake/data)
    win = 12 if not q else 10
    for e in ends[:-1]:
        lo = max(1, e - win // 2)
        inner = list(range(lo, lo + win - 1))
        for mask in range(1, 1 << len(inner)):
            cuts = tuple(p for i, p in enumerate(inner) if mask >> i & 1 and p < n)
            if len(cuts) >= 3:
                jobs.append(("equal", True, app, cuts, False))
    # 4. large frames: sizes around 2^15 and the 16-bit maximum, whole, cut near every frame boundary, and (once) byte-wise
    for L in (32741, 32742, 32743, 40000, 65509):
        big = ("ST", f"BIG:{L}", "ST")
        nb, endsb = stream_layout("equal", True, big)
        jobs.append(("equal", True, big, (), False))
        for e in endsb:
            for c in (e - 1, e, e + 1, e + 3):
                if 0 < c < nb:
                    jobs.append(("equal", True, big, (c,), False))
        jobs.append(("equal", True, big, tuple(range(4096, nb, 4096)), False))
    jobs.append(("equal", True, ("ST", "BIG:32742", "ST"), (-1,), False))
    # 6. a long session: the responder's nonce counter passes 2^16 (every frame must still decrypt and be delivered, in order)
    long_app = ("ST*66000",)
    nlong, _ = stream_layout("absent", False, long_app)
    jobs.append(("absent", False, long_app, tuple(range(60000, nlong, 60000)), False))
    # 7. a loop that stalls: the whole handshake reply is in the socket, the loop gets to it 29 / 31 / 45 s later
    for st_ in (29.0, 31.0, 45.0):
        for nv, exp_ in (("equal", True), ("absent", False)):
            jobs.append((nv, exp_, ("ST", "PR"), (), False, False, "", st_))
    # 5. a user listener that unsubscribes itself from inside its first call (next to the all-types probe, and as the only
    #    subscriber of its type): the frames after it are still delivered, in order
    for lst in ("oneshot", "lone"):
        appl = ("ST", "ST", "PR", "ST")
        nl, endsl = stream_layout("equal", True, appl)
        jobs.append(("equal", True, appl, (), False, False, lst))
        jobs.append(("equal", True, appl, (-1,), False, False, lst))
        jobs.append(("equal", True, appl, (), False, True, lst))
        for e in endsl:
            for c in (e - 1, e, e + 2):
                if 0 < c < nl:
                    jobs.append(("equal", True, appl, (c,), False, False, lst))
    if not q:
        # <= 3 cuts on a two-frame session
        n2, ends2 = stream_layout("absent", False, ("ST",))
        band = sorted(set([p for p in range(1, n2) if any(abs(p - e) <= 4 for e in ends2)] + list(range(1, n2, 4))))
        for cuts in itertools.combinations(band, 3):
            jobs.append(("absent", False, ("ST",), cuts, False))
    ctx = mp.get_context("fork")
    with ctx.Pool(min(16, os.cpu_count() or 1)) as pool:
        outs = pool.map(_job, jobs, chunksize=128)
    rejects = sum(1 for _, o in outs if o["reject"])
    shapes = {(a[0], a[1], len(a[3]) if a[3] != (-1,) else -1) for a, _ in outs}
    for a, o in outs:
        if o["viol"]:
            kind = o["viol"].split(":")[0][:60]
            res.add(f"name={a[0]},expected={a[1]},app={a[2]},cuts={a[3]}{',stall=' + str(a[7]) if len(a) > 7 and a[7] else ''}{',hello_name=' + repr(a[8]) if len(a) > 8 and a[8] is not None else ''}{',back-to-back' if len(a) > 9 and a[9] else ''}|{kind}", o["viol"],
                    {"harness": "c03", "name_variant": a[0], "expected": a[1], "app": list(a[2]), "cuts": list(a[3]), "probe_send": a[4],
                     "recycled": a[5] if len(a) > 5 else False, "listener": a[6] if len(a) > 6 else "", "stall": a[7] if len(a) > 7 else 0.0,
                     "hello_name": a[8] if len(a) > 8 else None, "b2b": a[9] if len(a) > 9 else False})
    if len(res.violations) > 6:
        res.violations = res.violations[:6]
    if not res.violations and (len(outs) < 5000 or rejects < 50):
        raise HarnessError(f"vacuous: sessions={len(outs)} refused={rejects}")
    res.coverage = {
        "evaluations": len(outs),
        "distinct_nontrivial": len({(a[0], a[1], a[3]) for a, _ in outs}),
        "rule": "one evaluation = one fresh Noise session (fresh client ephemeral key) of the real APIConnection against the reference "
        "responder with the server byte stream cut at the given positions; distinct = distinct (name variant, expected, cut tuple)",
        "sessions": len(outs),
        "sessions_refused_by_name_rule": rejects,
        "stream_length": n,
        "frame_ends": ends,
        "max_cuts_all_pairs": 2,
        "window_all_segmentations": win,
        "shapes": len(shapes),
        "exhaustive": True,
        "samples": [{"name": a[0], "expected": a[1], "app": list(a[2]), "cuts": list(a[3])} for a, _ in outs[:: max(1, len(outs) // 5)]][:5],
    }
    res.assumptions = [
        "the reference responder (mc/noise_ref.py) is written from the Noise specification and shares no code with the client or the `noise` package",
        "readiness is observed as the client's first encrypted application frame (its HelloRequest), decrypted by the responder",
    ]
    return res


def replay(rp: dict[str, Any]) -> bool:
    env.load()
    d = rp["detail"]
    o = run_session(d["name_variant"], d["expected"], tuple(d["app"]), tuple(d["cuts"]), d.get("probe_send", False),
                    d.get("recycled", False), d.get("listener", ""), float(d.get("stall", 0.0)), d.get("hello_name"), bool(d.get("b2b", False)))
    print(o)
    return o["viol"] is None
