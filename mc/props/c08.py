"""C08 - closing a connection releases everything and silences it.

Two enumerations over the real code:
  (1) crash-point sweep: canonical connect/steady/disconnect scenarios are recorded once; every close cause is then
      injected *before every single event-loop callback* of the scenario (user-side causes are direct calls, network
      causes are bytes/EOF/RST becoming available at that point), singly and in pairs;
  (2) schedule exploration from seeded states with trailing-frame chunks and same-turn orderings (shared harness).
After every close (and again after running virtual time forward) the auditor lists every socket, transport, live
timer and user task of the world; sends and subscriber deliveries are judged at the moment they happen.
"""

from __future__ import annotations

import multiprocessing as mp
import os
import time
from typing import Any

from .. import env
from ..evidence import Result
from ..explore import Stats, explore_parallel
from ..lifecycle import ATOMS, LifeHarness, LifeWorld, Oracle
from ..vloop import HarnessError, timer_name

ATOMS_PLAIN = ("H", "C", "DR", "DRESP", "PR", "PRESP", "ST", "BAD", "PRE", "ENC")
ATOMS_NOISE = ("NH", "NHE", "H", "C", "DR", "DRESP", "ST", "BAD", "PRE", "TAMPER")
PAIRS = (
    ("H", "C"), ("ST", "ST"), ("ST", "PR"), ("DR", "ST"), ("DR", "PR"), ("DR", "H"), ("DR", "DR"), ("BAD", "ST"), ("BAD", "PR"), ("PRE", "ST"), ("ENC", "ST"),
    ("C", "DR"), ("H", "DR"), ("H", "BAD"), ("NH", "DR"), ("NH", "BAD"), ("TAMPER", "ST"), ("DRESP", "ST"), ("DRESP", "PR"), ("DRESP", "DRESP"),
)


class C08Oracle(Oracle):
    def attach(self, w: LifeWorld) -> None:
        w.c08 = []  # type: ignore[attr-defined]
        from aioesphomeapi.core import MESSAGE_TYPE_TO_PROTO

        w.reent = None  # type: ignore[attr-defined]

        def probe(msg: Any) -> None:
            # judged by the state at the start of this message's dispatch: the subscriber that closes the
            # connection may run before other subscribers of the same message
            st = w.dispatch_entry_state if w.dispatch_entry_state is not None else w.state()
            w.delivered.append((w.loop.time(), type(msg).__name__, st))
            if st == "CLOSED":
                w.c08.append(f"C08:delivery-after-close:{type(msg).__name__} delivered to a subscriber while the connection reads CLOSED")  # type: ignore[attr-defined]
            if w.reent is not None and type(msg).__name__ not in ("HelloResponse", "ConnectResponse"):  # type: ignore[attr-defined]
                # a subscriber that closes the connection from inside its callback (re-entrancy): frames that follow in the chunk stay undelivered
                how, w.reent = w.reent, None  # type: ignore[attr-defined]
                w.note("reentrant", how)
                w.force_called = True
                try:
                    w.conn.force_disconnect()
                except Exception as e:  # noqa: BLE001
                    w.note("force_raised", type(e).__name__)

        try:
            w.conn.add_message_callback(probe, tuple(MESSAGE_TYPE_TO_PROTO.values()))
        except Exception as e:  # noqa: BLE001
            raise HarnessError(f"cannot register probe subscriber: {e}") from e

        def on_send(s: Any, data: bytes) -> None:
            if w.state() == "CLOSED":
                w.c08.append(f"C08:write-after-close:{len(data)} bytes written to the device while the connection reads CLOSED")  # type: ignore[attr-defined]

        w.send_hooks.append(on_send)

        def on_error(entry: dict[str, Any]) -> None:
            # a timer of the connection firing (and failing) although the connection was already closed
            if entry["is_timer"] and w.cb_entry_state == "CLOSED" and "Exception in callback" in str(entry["message"]):
                w.c08.append(f"C08:timer-fired-after-close:{entry['exc_type']} raised by a timer callback that ran after the close")  # type: ignore[attr-defined]

        w.loop.error_hook = on_error

        def keepalive_monitor(_m: Any) -> None:
            # evaluated after every callback: the keepalive / pong timers are released synchronously by the closing step, so at no
            # callback boundary may the connection read CLOSED while one of them is live (they would have been armed after the close)
            if w.state() == "CLOSED":
                names = [timer_name(h) for h in w.loop.live_timers()]
                bad = [n for n in names if "keep_alive" in n or "pong" in n]
                if bad and not any(x.startswith("C08:keepalive-armed-after-close") for x in w.c08):  # type: ignore[attr-defined]
                    w.c08.append(f"C08:keepalive-armed-after-close:{sorted(bad)} live while the connection reads CLOSED")  # type: ignore[attr-defined]

        w.extra_monitors.append(keepalive_monitor)

    def audit(self, w: LifeWorld, when: str) -> list[str]:
        v = []
        open_socks = [s.fd for s in w.net.sockets if not s.closed]
        if open_socks:
            v.append(f"C08:socket-open:{when}: socket(s) {open_socks} still open after the connection closed")
        open_tr = [i for i, t in enumerate(w.transports) if not t.is_closing()]
        if open_tr:
            v.append(f"C08:transport-open:{when}: transport not closing after the connection closed")
        timers = [timer_name(h) for h in w.loop.live_timers()]
        if timers:
            v.append(f"C08:timer-armed:{when}: live timer(s) after the connection closed: {sorted(timers)}")
        pend = [n for n in w.tasks if w.pending(n)]
        if pend:
            v.append(f"C08:task-blocked:{when}: user task(s) {pend} still pending after the connection closed")
        return v

    def verdict(self, w: LifeWorld) -> list[str]:
        v = list(w.c08)  # type: ignore[attr-defined]
        if w.state() == "CLOSED" and not w.loop.busy():
            v += self.audit(w, "after-close")
        if w.state() != "CLOSED" and not w.loop.busy():
            # disconnect() closes: once a disconnect() call has returned or raised (not: was cancelled by its caller), the connection
            # it was called on is closed - whatever the device answered, however often it was called
            for name in ("disc", "disc2"):
                r = w.results.get(name)
                if r is not None and r[0] != "cancelled" and f"cancel:{name}" not in w.misuse:
                    v.append(f"C08:open-after-disconnect:{name} ended {w.outcome(name)} but the connection still reads {w.state()} "
                             f"(sockets open: {[s.fd for s in w.net.sockets if not s.closed]})")
                    break
        return v

    def finish(self, w: LifeWorld) -> list[str]:
        v = []
        if w.state() == "CLOSED":
            v += self.audit(w, "after-time")
        return v

    def key(self, w: LifeWorld) -> Any:
        return len(w.c08)  # type: ignore[attr-defined]


def factory(noise: bool, seed: str, app_fails: str = "") -> LifeHarness:
    """app_fails: "" | "sub:<Exception>" (a subscriber of sensor states raises) | "stop" (the stop callback raises) | both joined by +."""
    sub = next((x[4:] for x in app_fails.split("+") if x.startswith("sub:")), None)
    return LifeHarness(
        subscriber_raises=sub,
        stop_raises="stop" in app_fails.split("+"),
        noise=noise,
        seed=seed,
        atoms=ATOMS_NOISE if noise else ATOMS_PLAIN,
        pairs=PAIRS,
        user=("start", "finish", "disc", "disc2", "force", "cancel"),
        misuse=False,
        oracles=(C08Oracle(),),
        etimedout=True,
    )


# ------------------------------------------------------------------------------------------------------
# crash-point sweep
# ------------------------------------------------------------------------------------------------------
SCENARIOS: dict[str, tuple[bool, list[str]]] = {
    # name: (noise, labels)
    "plain-login-disconnect": (False, ["start", "tcp:ok", "finish", "c:H", "c:C", "c:ST", "disc", "c:DRESP"]),
    "plain-onechunk-peerclose": (False, ["start", "tcp:ok", "finish", "c:H+C", "c:PR", "c:DR"]),
    "plain-keepalive": (False, ["start", "tcp:ok", "finish", "c:H+C", "time", "c:PRESP", "time", "time", "time", "time", "time", "time"]),
    "plain-silent-device": (False, ["start", "tcp:ok", "finish", "time", "time"]),
    "noise-login-disconnect": (True, ["start", "tcp:ok", "finish", "c:NH", "c:H", "c:C", "c:ST", "disc", "c:DRESP"]),
    "noise-silent-device": (True, ["start", "tcp:ok", "finish", "time", "time"]),
}
USER_CAUSES = ("force", "disc", "cancel", "reent")
NET_CAUSES = ("eof", "rst", "etimedout", "c:DR", "c:BAD", "c:PRE", "c:DR+ST", "c:DR+PR", "c:BAD+ST", "c:DR+H", "c:ST+ST", "c:ST+PR", "wf:sync", "wf:async")


def _inject(h: LifeHarness, w: LifeWorld, cause: str) -> bool:
    """Make ``cause`` happen right now (we are between two callbacks).  Returns False if not applicable."""
    s = w.sock
    if cause == "force":
        w.note("inject", cause)
        w.force_called = True
        try:
            w.conn.force_disconnect()
        except Exception as e:  # noqa: BLE001
            w.note("force_raised", type(e).__name__)
        w.mon()
        return True
    if cause == "reent":
        w.note("inject", cause)
        w.reent = "force"  # type: ignore[attr-defined]
        return True
    if cause == "disc":
        if "disc" in w.tasks:
            return False
        w.note("inject", cause)
        w.spawn("disc", w.conn.disconnect)
        w.mon()
        return True
    if cause == "cancel":
        for name in ("finish", "start", "req"):
            if w.pending(name):
                w.note("inject", cause, name)
                w.cancel(name)
                return True
        return False
    if s is None or s.closed or s.connect_result != 0:
        return False
    if cause == "eof":
        w.io_eof(s)
    elif cause == "rst":
        w.io_rst(s)
    elif cause == "etimedout":
        s.inbox.append(TimeoutError(110, "Connection timed out"))
    elif cause == "wf:sync":
        w.write_fault = OSError(32, "Broken pipe (armed)")
    elif cause == "wf:async":
        s.send_error = OSError(32, "Broken pipe (armed)")
    elif cause.startswith("c:"):
        atoms = cause[2:].split("+")
        if h.noise and not all(h._atom_ok(w, a) for a in atoms):
            return False
        data = b"".join(ATOMS[a](w) for a in atoms)
        w.chunks.append({"atoms": atoms, "armed": w.armed, "recv_state": None})
        w.io_chunk(s, data)
    else:
        raise HarnessError(cause)
    w.note("inject", cause)
    return True


def run_injected(scn: str, inj: tuple[tuple[int, str], ...]) -> dict[str, Any]:
    # "<scenario>@debug": the same run with debug logging switched on (logger at DEBUG level, every record formatted)
    from .. import world as _world

    debug = scn.endswith("@debug")
    noise, labels = SCENARIOS[scn.removesuffix("@debug")]
    h = factory(noise, "init")
    _world.DEFAULT_DEBUG[0] = debug
    try:
        w = h.fresh()
    finally:
        _world.DEFAULT_DEBUG[0] = False
    counter = {"n": 0, "applied": 0}
    todo = dict(inj)

    def before(handle: Any) -> None:
        k = counter["n"]
        counter["n"] += 1
        c = todo.get(k)
        if c is not None and _inject(h, w, c):
            counter["applied"] += 1

    w.before_hooks.append(before)
    viol: list[str] = []
    try:
        for lab in labels:
            en = h.enabled(w)
            if lab not in en:
                if not inj and lab != "time":
                    raise HarnessError(f"scenario {scn}: step {lab!r} is not enabled in the undisturbed run (enabled: {en[:12]}...)")
                continue
            h.apply(w, lab)
            viol = h.verdict(w)
            if viol:
                break
        # causes scheduled at an index the scenario never reached are applied at the end
        if not viol:
            for k in sorted(todo):
                if k >= counter["n"] and _inject(h, w, todo[k]):
                    counter["applied"] += 1
                    w.drain()
            viol = h.verdict(w) or h.finish(w)
        return {
            "viol": [x for x in viol if x.startswith("C08")],
            "callbacks": counter["n"],
            "applied": counter["applied"],
            "final": w.state(),
            "log": list(w.log) if viol else None,
            "outcome": h.outcome(w),
        }
    finally:
        h.close(w)


def _job(args: tuple[str, tuple[tuple[int, str], ...]]) -> tuple[Any, dict[str, Any]]:
    env.load()
    return args, run_injected(*args)


def crash_point_sweep(res: Result, tier: str) -> dict[str, Any]:
    jobs: list[tuple[str, tuple[tuple[int, str], ...]]] = []
    base = {}
    for scn in list(SCENARIOS) + ["plain-login-disconnect@debug", "noise-login-disconnect@debug"]:
        b = run_injected(scn, ())
        if b["viol"]:
            res.add(f"sweep:{scn}:baseline:{b['viol'][0][:60]}", b["viol"][0], {"scenario": scn, "inject": [], "log": b["log"]})
        base[scn] = b["callbacks"]
        causes = USER_CAUSES + NET_CAUSES
        for k in range(b["callbacks"] + 1):
            for c in causes:
                jobs.append((scn, ((k, c),)))
        # pairs: second cause within the next 3 (quick) / at every later (thorough) callback
        span = 3 if tier == "quick" else 12
        pair_causes = ("force", "disc", "cancel", "eof", "c:DR", "c:BAD", "wf:sync", "wf:async", "c:DR+ST", "reent", "c:ST+ST")
        if scn.endswith("@debug") or (tier == "quick" and scn not in ("plain-login-disconnect", "noise-login-disconnect", "plain-onechunk-peerclose")):
            continue
        for k in range(b["callbacks"] + 1):
            for c1 in pair_causes:
                for d in range(0, span + 1):
                    for c2 in pair_causes:
                        if d == 0 and c1 >= c2:
                            continue
                        if c1 == c2:
                            continue
                        jobs.append((scn, ((k, c1), (k + d, c2)) if d else ((k, c1), (k + 1000000, c2))))
    ctx = mp.get_context("fork")
    with ctx.Pool(min(16, os.cpu_count() or 1)) as pool:
        outs = pool.map(_job, jobs, chunksize=64)
    applied = 0
    closed = 0
    outcomes = set()
    for (scn, inj), o in outs:
        applied += 1 if o["applied"] else 0
        closed += 1 if o["final"] == "CLOSED" else 0
        outcomes.add(o["outcome"])
        if o["viol"]:
            clause = o["viol"][0]
            kind = ":".join(clause.split(":")[:2])
            res.add(f"sweep:{scn}:{kind}:{'+'.join(c for _, c in inj)}", clause,
                    {"harness": "c08-sweep", "scenario": scn, "inject": [list(x) for x in inj], "violated": o["viol"], "log": o["log"]})
    return {"sweep_runs": len(jobs), "sweep_runs_with_injection_applied": applied, "sweep_runs_ending_closed": closed,
            "sweep_distinct_outcomes": len(outcomes), "scenario_callbacks": base}


def client_subscriber_sweep(res: Result, only: str | None = None) -> int:
    """Subscribers registered through the APIClient (state, log, service-call, Bluetooth and voice-assistant handlers - the latter are
    coroutines the client starts as tasks): a chunk that carries messages for them *and* the event that closes the connection.  No
    handler may run once the connection reads closed - neither for frames behind the closing one nor for frames in front of it that
    are delivered late."""
    import itertools as _it

    from ..world import ConnWorld, mk

    pb = env.pb()
    n = 0
    closers = ("DR", "garbage", "eof-next", "force-in-callback")
    for noise in (False, True):
        for closer in closers:
            for order in ("before", "after", "both"):
                key = f"client-subscribers:{'noise' if noise else 'plain'}:{closer}:messages-{order}-the-close"
                if only is not None and key != only:
                    continue
                w = ConnWorld(client=True, noise=noise, login=True)
                late: list[str] = []
                calls: list[str] = []
                try:
                    w.connect_fully()
                    cl = w.client
                    conn = cl._connection

                    def seen(tag: str) -> None:
                        calls.append(tag)
                        c = cl._connection
                        if c is None or c.connection_state.name == "CLOSED" or conn.connection_state.name == "CLOSED":
                            late.append(tag)
                        if closer == "force-in-callback" and tag == "state" and conn.connection_state.name == "CONNECTED":
                            conn.force_disconnect()

                    async def h_start(conversation_id: str, flags: int, audio_settings: Any, wake_word_phrase: Any) -> int:
                        seen("va-start")
                        return 6000

                    async def h_stop(abort: bool) -> None:
                        seen("va-stop")

                    async def h_audio(data: bytes) -> None:
                        seen("va-audio")

                    async def h_ann(finished: Any) -> None:
                        seen("va-announce")

                    cl.subscribe_states(lambda st: seen("state"))
                    cl.subscribe_logs(lambda m: seen("log"))
                    cl.subscribe_service_calls(lambda m: seen("service"))
                    cl.subscribe_bluetooth_connections_free(lambda a, b: seen("bt-free"))
                    cl.subscribe_voice_assistant(handle_start=h_start, handle_stop=h_stop, handle_audio=h_audio, handle_announcement_finished=h_ann)
                    w.drain()
                    msgs = [mk("SensorStateResponse", key=1, state=1.0), mk("VoiceAssistantAudio", data=b"abc"),
                            mk("VoiceAssistantRequest", start=True, conversation_id="c"), mk("SubscribeLogsResponse", level=3, message=b"m"),
                            mk("VoiceAssistantAnnounceFinished", success=True), mk("HomeassistantServiceResponse", service="s.x"),
                            mk("BluetoothConnectionsFreeResponse", free=1, limit=3), mk("VoiceAssistantAudio", data=b"def", end=True),
                            mk("VoiceAssistantRequest", start=False)]
                    body = b"".join(w.dframe(m) for m in msgs)
                    if closer == "DR":
                        close_bytes = w.dframe(mk("DisconnectRequest"))
                    elif closer == "garbage":
                        close_bytes = b"\x7f\x7f\x7f" if not noise else b"\x00\x00\x01x"
                    else:
                        close_bytes = b""
                    tail = b"".join(w.dframe(m) for m in msgs) if order in ("after", "both") and close_bytes and closer != "garbage" else b""
                    head = body if order in ("before", "both") or not close_bytes else b""
                    w.io_chunk(w.sock, head + close_bytes + tail)
                    if closer == "eof-next":
                        w.step()
                        if w.sock is not None and not w.sock.closed:
                            w.io_eof(w.sock)
                    w.drain()
                    w.run_timers(w.loop.time() + 5.0)
                    n += 1
                    if conn.connection_state.name != "CLOSED":
                        raise HarnessError(f"{key}: the scenario did not close the connection")
                    if late:
                        res.add(key, f"C08:delivered-after-close:handlers {late} ran when the connection already read closed (all handler calls: {calls})",
                                {"harness": "c08-client", "key": key})
                finally:
                    w.close()
    del _it, pb
    return n


def run(tier: str, seed: int) -> Result:
    res = Result("C08", "fault_enumeration")
    sweep = crash_point_sweep(res, tier)
    sweep["client_subscriber_runs"] = client_subscriber_sweep(res)
    total = Stats()
    cfgs = []
    for s in ("connecting", "opened", "hello_sent", "connected", "req_pending", "disc_pending", "pong_due", "disc_gave_up"):
        cfgs.append((False, s, 3 if tier == "quick" else 4, 1 if tier == "quick" else 2))
    for s in ("hswait", "hello_sent", "connected"):
        cfgs.append((True, s, 2 if tier == "quick" else 3, 1 if tier == "quick" else 2))
    # application code that fails while the connection closes: a raising subscriber (one more close cause), a raising stop callback
    # (whatever ends the session, everything is released and every waiter is told), and both
    for s in ("connected", "req_pending", "pong_due"):
        for af in ("sub:ValueError", "stop", "sub:StopIteration+stop"):
            cfgs.append((False, s, 2 if tier == "quick" else 3, 1, af))
    cfgs.append((True, "req_pending", 2, 1, "stop"))
    # configuring the connected socket fails (setsockopt raises): the attempt fails, and the socket it had is closed like everything else
    cfgs.append((False, "connecting", 2, 1, "env:nodelay"))
    cfgs.append((False, "init", 3, 1, "env:nodelay"))
    budget = 240.0 if tier == "quick" else 2400.0
    t_end = time.monotonic() + budget
    per_cfg = []
    for i, cfg in enumerate(cfgs):
        noise, sd, depth, bound = cfg[:4]
        app_fails = cfg[4] if len(cfg) > 4 else ""
        left = max(5.0, (t_end - time.monotonic()) / min(3, len(cfgs) - i))  # most configurations finish far below their share: a hungry one may take a third of what is left
        from .. import world as _world

        env_opt = app_fails if app_fails.startswith("env:") else ""
        if env_opt:
            app_fails = ""
        _world.NODELAY_EXC[0] = OSError(22, "Invalid argument") if env_opt == "env:nodelay" else None
        try:
            st = explore_parallel(factory, (noise, sd, app_fails), depth=depth, bound=bound, budget_s=left, split_depth=1)
        finally:
            _world.NODELAY_EXC[0] = None
        app_fails = app_fails or env_opt
        per_cfg.append({"noise": noise, "seed_state": sd, "application_failures": app_fails, "depth": depth, "deviation_bound": bound, "executions": st.executions,
                        "states": st.states, "time_capped": st.time_capped})
        for v in st.violations:
            clause = next((c for c in v["violated"] if c.startswith("C08")), None)
            if clause is None:
                continue
            kind = ":".join(clause.split(":")[:2])
            res.add(f"explore:{'noise' if noise else 'plain'}:{sd}{':' + app_fails if app_fails else ''}:{kind}", clause,
                    {"harness": "lifecycle", "noise": noise, "seed_state": sd, "app_fails": app_fails, "choices": v["choices"], "violated": v["violated"],
                     "observations": v["observations"]})
        total.merge(st)
    evals = sweep["sweep_runs"] + total.executions
    if not res.violations and (sweep["sweep_runs_with_injection_applied"] < 500 or sweep["sweep_runs_ending_closed"] < 500):
        raise HarnessError(f"vacuous sweep: {sweep}")
    res.coverage = {
        "evaluations": evals,
        "distinct_nontrivial": sweep["sweep_runs_with_injection_applied"] + total.states,
        "rule": "one evaluation = one complete execution (scenario with close cause(s) injected before a given callback index, or one "
        "explored label sequence) followed by the resource audit; non-trivial = the injection actually took place / distinct state fingerprints",
        **sweep,
        "explored_executions": total.executions,
        "explored_states": total.states,
        "explored_transitions": total.transitions,
        "configs": per_cfg,
        "exhaustive": not total.time_capped,
        "caps_hit": ["wall-clock budget"] if total.time_capped else [],
        "samples": [{"scenario": s, "labels": SCENARIOS[s.removesuffix("@debug")][1], "callbacks": n} for s, n in sweep["scenario_callbacks"].items()][:3] + total.samples[:1],
    }
    res.assumptions = [
        "every timer, task and socket of the world belongs to the connection under test, so 'none left' is the audit",
        "a write or a subscriber delivery is judged by the connection's public state at the moment it happens",
    ]
    return res


def replay(rp: dict[str, Any]) -> bool:
    d = rp["detail"]
    if d.get("harness") == "c08-client":
        r = Result("C08", "fault_enumeration")
        client_subscriber_sweep(r, only=d["key"])
        print(d["key"], "->", [v.clause for v in r.violations] or "holds")
        return not r.violations
    if d.get("harness") == "c08-sweep":
        o = run_injected(d["scenario"], tuple((int(k), c) for k, c in d["inject"]))
        for line in o["log"] or []:
            print(line)
        print("violated:", o["viol"])
        return not o["viol"]
    from .. import world as _world

    af = d.get("app_fails", "")
    _world.NODELAY_EXC[0] = OSError(22, "Invalid argument") if af == "env:nodelay" else None
    h = factory(d["noise"], d["seed_state"], "" if af.startswith("env:") else af)
    w = h.fresh()
    try:
        v: list[str] = []
        for lab in d["choices"]:
            h.apply(w, lab)
            v = h.verdict(w)
            if v:
                break
        else:
            v = h.finish(w)
        for line in w.log:
            print(line)
        print("violated:", v)
        return not v
    finally:
        h.close(w)
