"""C17 - one converted callback per subscribed message; camera images reassemble per key.

All on a real connected APIClient in the simulated world; every enumerated stream is delivered as
real frames through the socket, in one chunk and one frame per chunk.

  states   : every state type populated in several ways; every sequence of <= n messages over the types
  camera   : every interleaving of bounded per-key chunk streams (multinomial), incl. an unfinished image
  simple   : logs / service calls / HA states (both handlers) / BLE advertisements (parsed, raw) /
             connections-free: every sequence of <= 3 messages, unsubscribe at every position, also from
             inside a handler with more frames following in the same chunk
  voice    : every sequence of <= n requests over {start, stop, audio, audio-end, announce} x start-handler
             behaviour {port now, port later, None, pending} x optional handlers x unsubscribe position
"""

from __future__ import annotations

import itertools
import multiprocessing as mp
import os
from typing import Any

from .. import env, pbgen
from ..evidence import Result
from ..vloop import HarnessError
from ..world import ConnWorld
from . import c14


class Sess:
    def __init__(self, noise: bool = False, keepalive: float | None = None, early_client: bool = False) -> None:
        from .. import world as _world

        kw: dict[str, Any] = {} if keepalive is None else {"keepalive": keepalive}
        # early_client: the APIClient object is created before the running loop exists (module-level client, then asyncio.run)
        _world.FOREIGN_LOOP_CLIENT[0] = early_client
        try:
            w = ConnWorld(client=True, login=True, noise=noise, **kw)
        finally:
            _world.FOREIGN_LOOP_CLIENT[0] = False
        w.connect_fully()
        self.keepalive = keepalive
        self.w = w
        self.client = w.client
        self.sock = w.sock
        self.mark = len(w.sent_frames())
        self.ids = env.proto_ids()

    def deliver(self, msgs: list[Any], one_chunk: bool) -> None:
        w = self.w
        if one_chunk:
            w.io_chunk(self.sock, b"".join(w.dframe(m) for m in msgs))
            w.drain()
        else:
            for m in msgs:
                w.io_chunk(self.sock, w.dframe(m))
                w.drain()

    def until_ping_outstanding(self) -> None:
        """Let keepalive intervals pass in silence until the client has just written a PingRequest (its pong timer is armed)."""
        assert self.keepalive is not None
        w = self.w
        for _ in range(4):
            w.loop.advance_to(w.loop.time() + self.keepalive)
            w.drain()
            if any(n == "PingRequest" for n, _ in self.written()):
                w.loop.advance_to(w.loop.time() + 0.25 * self.keepalive)
                return
        raise HarnessError("no keepalive ping within four silent intervals")

    def written(self) -> list[tuple[str, Any]]:
        pb = env.pb()
        fr = self.w.sent_frames()
        new = fr[self.mark:]
        self.mark = len(fr)
        out = []
        for t, p in new:
            name = self.ids.get(t, f"?{t}")
            m = getattr(pb, name)()
            m.ParseFromString(p)
            out.append((name, m))
        return out

    def alive(self) -> bool:
        return self.client._connection is not None and self.client._connection.is_connected

    def close(self) -> None:
        self.w.close()


def state_types() -> list[str]:
    pf = env.proto()
    out = [n for n in pf.messages if n.endswith("StateResponse") and n not in ("HomeAssistantStateResponse", "SubscribeHomeAssistantStateResponse")]
    out.append("EventResponse")
    return sorted(out)


# ---------------------------------------------------------------------------------------------------
# states
# ---------------------------------------------------------------------------------------------------
def run_states(tier: str) -> dict[str, Any]:
    env.load()
    from aioesphomeapi import model

    pb = env.pb()
    # an application may hold placeholder instances of any model class (base classes included) before the first state arrives
    c14.instantiate_defaults(Result("C17", "exploration"))
    pairs = c14.build_pairs(model, pb)
    enum_pairing = {m: c14.ENUM_RENAMED.get(m, m) for m in vars(model) if isinstance(getattr(model, m), type)
                    and issubclass(getattr(model, m), model.APIIntEnum) and getattr(model, m) is not model.APIIntEnum}
    oracle = c14.Oracle(pairs, enum_pairing)
    types = state_types()
    viol: list[tuple[str, str, Any]] = []
    seen: set[str] = set()
    evals = 0

    def add(k: str, clause: str, detail: Any = None) -> None:
        if k not in seen:
            seen.add(k)
            viol.append((k, clause, detail))

    got: list[Any] = []
    s = Sess()
    try:
        s.client.subscribe_states(got.append)
        wr = s.written()
        if [n for n, _ in wr] != ["SubscribeStatesRequest"]:
            add("states:subscribe-request", f"subscribe_states wrote {[n for n, _ in wr]}, expected one SubscribeStatesRequest")

        def check(msgs: list[Any], one_chunk: bool, tag: str) -> None:
            nonlocal evals
            del got[:]
            s.deliver(msgs, one_chunk)
            evals += 1
            names = [type(m).__name__ for m in msgs]
            if len(got) != len(msgs):
                add(f"states:count:{'+'.join(sorted(set(names)))}"[:100], f"{len(got)} callbacks for the stream {names} ({tag}, one_chunk={one_chunk})",
                    {"stream": names, "one_chunk": one_chunk})
                return
            for g, m in zip(got, msgs):
                mname = pairs[type(m).__name__]
                d = oracle.diff(mname, g, m)
                if d:
                    add(f"states:value:{type(m).__name__}:{d[0].split(':')[0]}"[:120], f"stream {names} ({tag}): {d[0]}", {"stream": names, "diffs": d[:4]})
            if not s.alive():
                raise HarnessError(f"session died while delivering {names}: {s.w.loop.errors[-1:]}")

        # every type, several populations
        for t in types:
            for salt in (0, 1, 5, 11):
                m = pbgen.populate(getattr(pb, t)(), salt)
                check([m], True, f"salt {salt}")
            check([getattr(pb, t)()], True, "empty message")
        # sequences
        def mk(t: str, i: int) -> Any:
            m = pbgen.populate(getattr(pb, t)(), i)
            if hasattr(m, "key"):
                m.key = 100 + i
            return m

        depth3 = types if tier != "quick" else types[::3]
        for a, b in itertools.product(types, repeat=2):
            for oc in (True, False):
                check([mk(a, 1), mk(b, 2)], oc, "pairs")
        for a, b, c in itertools.product(depth3, repeat=3):
            check([mk(a, 1), mk(b, 2), mk(c, 3)], True, "triples")
        # the same message twice is two callbacks
        for t in types:
            m = mk(t, 4)
            check([m, m, m], True, "repeats")
    finally:
        s.close()
    # a callback that calls back into the library (sends a command, asks for an image) while the message is being dispatched
    got = []
    s = Sess()
    try:
        def reentrant(st: Any) -> None:
            got.append(st)
            s.client.switch_command(7, bool(len(got) & 1))
            if len(got) % 3 == 0:
                s.client.request_single_image()

        s.client.subscribe_states(reentrant)
        s.written()
        for a, b in itertools.product(types, repeat=2):
            check([mk(a, 1), mk(b, 2), mk(a, 3)], True, "re-entrant callback")
        cmds = [n for n, _ in s.written()]
        if cmds.count("SwitchCommandRequest") != 3 * len(types) ** 2:
            add("states:reentrant:commands", f"commands sent from inside the state callback: {cmds.count('SwitchCommandRequest')} SwitchCommandRequest "
                f"frames for {3 * len(types) ** 2} callbacks")
    finally:
        s.close()
    # the same over the encrypted transport (every type, all pairs in one chunk and in separate chunks)
    got = []
    s = Sess(noise=True)
    try:
        s.client.subscribe_states(got.append)
        s.written()
        for t in types:
            check([pbgen.populate(getattr(pb, t)(), 3)], True, "noise")
        for a, b in itertools.product(types, repeat=2):
            check([mk(a, 1), mk(b, 2)], (hash((a, b)) & 1) == 0, "noise pairs")
    finally:
        s.close()
    # while a keepalive ping is outstanding (the first message after the ping is not the pong): every type, alone and followed by the pong
    for noise in (False, True):
        got = []
        s = Sess(noise=noise, keepalive=10.0)
        try:
            s.client.subscribe_states(got.append)
            s.written()
            for t in types:
                s.until_ping_outstanding()
                check([mk(t, 2)], True, "ping outstanding")
                s.until_ping_outstanding()
                check([mk(t, 3), mk(t, 4)], False, "ping outstanding, two chunks")
        finally:
            s.close()
    return {"part": "states", "evals": evals, "viol": viol, "types": len(types)}


# ---------------------------------------------------------------------------------------------------
# camera
# ---------------------------------------------------------------------------------------------------
def interleavings(streams: list[list[Any]]) -> Any:
    """All merges of the per-key sequences that keep each sequence's own order."""
    idx = [0] * len(streams)
    total = sum(len(s) for s in streams)
    out: list[Any] = []

    def rec() -> Any:
        if len(out) == total:
            yield list(out)
            return
        for k, st in enumerate(streams):
            if idx[k] < len(st):
                out.append(st[idx[k]])
                idx[k] += 1
                yield from rec()
                idx[k] -= 1
                out.pop()

    yield from rec()


def camera_configs(tier: str) -> list[dict[int, list[int]]]:
    """key -> chunk counts of its consecutive images; a negative count = image left unfinished (no done flag)."""
    cfgs = [
        {1: [2, 1], 2: [1, 2], 3: [3]},
        {1: [2, 2], 2: [3, 1]},
        {1: [1, 1, 1], 2: [3]},
        {1: [2, -1], 2: [1, -2]},
        {1: [-2], 2: [2], 3: [1, 1]},
    ]
    if tier != "quick":
        cfgs += [{1: [2, 2], 2: [2, 2], 3: [2, 1]}, {1: [3, 1], 2: [1, 3], 3: [-2]}, {1: [1, 2, 1], 2: [2, 1, 1]}]
    return cfgs


def run_camera(args: tuple[str, int]) -> dict[str, Any]:
    tier, ci = args
    env.load()
    pb = env.pb()
    cfg = camera_configs(tier)[ci]
    viol: list[tuple[str, str, Any]] = []
    seen: set[str] = set()
    streams = []
    for key, images in cfg.items():
        st = []
        for ii, n in enumerate(images):
            for c in range(abs(n)):
                data = f"k{key}i{ii}c{c}|".encode() if not (key == 2 and c == 0 and ii == 0) else b""  # one empty first chunk
                st.append((key, ii, c, data, n > 0 and c == n - 1))
        streams.append(st)
    execs = 0
    distinct: set[Any] = set()
    for order in interleavings(streams):
        for mode in ("frames", "one_chunk", "with_other_state", "two_subscriptions", "spread-2s"):
            if mode != "frames" and execs % 7:  # the chunking variants on every 7th interleaving
                pass
            s = Sess()
            try:
                got: list[Any] = []
                s.client.subscribe_states(got.append)
                got2: list[Any] = []
                if mode == "two_subscriptions":
                    s.client.subscribe_states(got2.append)  # a second, independent subscription on the same client
                msgs = []
                for key, ii, c, data, done in order:
                    msgs.append(pb.CameraImageResponse(key=key, data=data, done=done))
                    if mode == "with_other_state" and c == 0:
                        msgs.append(pb.SensorStateResponse(key=key, state=1.0))
                if mode == "spread-2s":
                    # a slow link: the chunks arrive two seconds apart (an image takes as long as it takes)
                    for m in msgs:
                        s.w.io_chunk(s.sock, s.w.dframe(m))
                        s.w.drain()
                        s.w.run_timers(s.w.loop.time() + 2.0)
                else:
                    s.deliver(msgs, mode == "one_chunk")
                execs += 1
                # reference: per key buffer since the previous completion
                buf: dict[int, bytes] = {}
                exp = []
                for m in msgs:
                    if type(m).__name__ != "CameraImageResponse":
                        exp.append(("SensorState", m.key, None))
                        continue
                    buf[m.key] = buf.get(m.key, b"") + m.data
                    if m.done:
                        exp.append(("CameraState", m.key, buf.pop(m.key)))
                act = [(type(g).__name__, g.key, getattr(g, "data", None)) for g in got]
                distinct.add(tuple(act))
                if mode == "two_subscriptions" and act == exp:
                    act = [(type(g).__name__, g.key, getattr(g, "data", None)) for g in got2]  # the second subscriber sees the same images
                if act != exp:
                    k = f"camera:cfg{ci}:{mode}"
                    if k not in seen:
                        seen.add(k)
                        viol.append((k, f"camera interleaving {[(o[0], o[1], o[2], o[4]) for o in order]} ({mode}): callbacks {act} != expected {exp}",
                                     {"config": {str(a): b for a, b in cfg.items()}, "order": [[o[0], o[1], o[2], o[4]] for o in order], "mode": mode}))
            finally:
                s.close()
    return {"part": f"camera{ci}", "evals": execs, "viol": viol, "distinct": len(distinct)}


# ---------------------------------------------------------------------------------------------------
# simple subscriptions
# ---------------------------------------------------------------------------------------------------
def simple_specs() -> dict[str, dict[str, Any]]:
    pb = env.pb()
    from aioesphomeapi import model

    def adv(i: int) -> Any:
        # names: ASCII, UTF-8, and bytes that are not valid UTF-8 (the name is a bytes field: a peripheral can advertise anything)
        nm = [f"n{i}".encode(), "K\u00fcche".encode(), b"K\xfcche\xff"][i % 3]
        m = pb.BluetoothLEAdvertisementResponse(address=1000 + i, rssi=-50 - i, address_type=i % 2, name=nm)
        m.service_uuids.append("0xFE9F")
        return m

    def raw(i: int) -> Any:
        m = pb.BluetoothLERawAdvertisementsResponse()
        for k in range(i + 1):
            m.advertisements.add(address=2000 + k, rssi=-40, address_type=1, data=bytes([i, k]))
        return m

    def svc(i: int) -> Any:
        m = pb.HomeassistantServiceResponse(service=f"light.turn_{i}", is_event=bool(i % 2))
        if i != 1:  # one message with empty maps
            m.data.add(key="entity_id", value=f"light.x{i}")
            m.variables.add(key="v", value=str(i))
        return m

    return {
        "logs": {
            "subscribe": lambda c, cb: c.subscribe_logs(cb, log_level=model.LogLevel.LOG_LEVEL_DEBUG, dump_config=True),
            "request": ("SubscribeLogsRequest", {"level": 5, "dump_config": True}),
            "msgs": [pb.SubscribeLogsResponse(level=i + 1, message=f"log {i}".encode()) for i in range(3)],
            "expect": lambda m: ("log", m.level, bytes(m.message)),
            "observe": lambda a: ("log", a[0].level, bytes(a[0].message)),
            "unsub_request": None,
        },
        "service_calls": {
            "subscribe": lambda c, cb: c.subscribe_service_calls(cb),
            "request": ("SubscribeHomeassistantServicesRequest", {}),
            "msgs": [svc(i) for i in range(3)],
            "expect": lambda m: ("svc", m.service, m.is_event, {e.key: e.value for e in m.data}, {e.key: e.value for e in m.variables},
                                 {e.key: e.value for e in m.data_template}),
            "observe": lambda a: ("svc", a[0].service, a[0].is_event, dict(a[0].data), dict(a[0].variables), dict(a[0].data_template)),
            "unsub_request": None,
        },
        "ble_adv": {
            "subscribe": lambda c, cb: c.subscribe_bluetooth_le_advertisements(cb),
            "request": ("SubscribeBluetoothLEAdvertisementsRequest", {"flags": 0}),
            "msgs": [adv(i) for i in range(3)],
            # what cannot be decoded is shown as U+FFFD; the handler is called all the same
            "expect": lambda m: ("adv", m.address, m.rssi, m.address_type, m.name.decode("utf-8", errors="replace")),
            "observe": lambda a: ("adv", a[0].address, a[0].rssi, a[0].address_type, a[0].name),
            "unsub_request": "UnsubscribeBluetoothLEAdvertisementsRequest",
        },
        "ble_raw": {
            "subscribe": lambda c, cb: c.subscribe_bluetooth_le_raw_advertisements(cb),
            "request": ("SubscribeBluetoothLEAdvertisementsRequest", {"flags": 1}),
            "msgs": [raw(i) for i in range(3)],
            "expect": lambda m: ("raw", [(a.address, bytes(a.data)) for a in m.advertisements]),
            "observe": lambda a: ("raw", [(x.address, bytes(x.data)) for x in a[0].advertisements]),
            "unsub_request": "UnsubscribeBluetoothLEAdvertisementsRequest",
        },
        "connections_free": {
            "subscribe": lambda c, cb: c.subscribe_bluetooth_connections_free(lambda free, limit: cb((free, limit))),
            "request": ("SubscribeBluetoothConnectionsFreeRequest", {}),
            "msgs": [pb.BluetoothConnectionsFreeResponse(free=i, limit=3 + i) for i in range(3)],
            "expect": lambda m: ("free", m.free, m.limit),
            "observe": lambda a: ("free", a[0][0], a[0][1]),
            "unsub_request": None,
        },
    }


def _scribble(args: tuple[Any, ...]) -> None:
    """Modify every mutable container reachable from a callback argument (what a consumer that post-processes its input does)."""
    import dataclasses as _dc

    for a in args:
        fields = [getattr(a, f.name, None) for f in _dc.fields(a)] if _dc.is_dataclass(a) else []
        for v in fields + ([a] if isinstance(a, (dict, list)) else []):
            try:
                if isinstance(v, dict):
                    v["__touched__"] = "by-consumer"
                elif isinstance(v, list):
                    v.append("__touched__")
            except Exception:  # noqa: BLE001
                pass


def run_simple(tier: str) -> dict[str, Any]:
    env.load()
    pb = env.pb()
    viol: list[tuple[str, str, Any]] = []
    seen: set[str] = set()
    evals = 0

    def add(k: str, clause: str, detail: Any = None) -> None:
        if k not in seen:
            seen.add(k)
            viol.append((k, clause, detail))

    specs = simple_specs()
    foreign = [pb.SensorStateResponse(key=1, state=2.0), pb.BluetoothConnectionsFreeResponse(free=9, limit=9), pb.SubscribeLogsResponse(level=1, message=b"x")]
    for name, sp in specs.items():
        msgs = sp["msgs"]
        seqs = [list(p) for n in (1, 2, 3) for p in itertools.product(range(len(msgs)), repeat=n)]
        for seq in seqs:
            for one_chunk in (True, False):
                # unsub position: None = never; k = after k messages (between chunks); ("in", k) = from inside the k-th handler call
                positions: list[Any] = [None] + list(range(len(seq) + 1)) + [("in", k) for k in range(1, len(seq) + 1)]
                for pos in positions:
                    s = Sess()
                    try:
                        got: list[Any] = []
                        holder: dict[str, Any] = {}

                        def cb(*a: Any, _got: list[Any] = got, _pos: Any = pos, _holder: dict[str, Any] = holder, _sp: Any = sp) -> None:
                            _got.append(_sp["observe"](a))
                            _scribble(a)  # a consumer may do what it likes with the object it was handed
                            if isinstance(_pos, tuple) and len(_got) == _pos[1] and _holder.get("unsub") is not None:
                                _holder["unsub"]()
                                _holder["unsubbed_in"] = True

                        unsub = sp["subscribe"](s.client, cb)
                        holder["unsub"] = unsub
                        wr = s.written()
                        evals += 1
                        rq_name, rq_fields = sp["request"]
                        if len(wr) != 1 or wr[0][0] != rq_name or any(getattr(wr[0][1], k) != v for k, v in rq_fields.items()):
                            add(f"simple:{name}:subscribe-request", f"{name}: subscribe wrote {wr!r}, expected one {rq_name} with {rq_fields}")
                        if unsub is None and pos is not None:
                            continue  # this API has no unsubscribe function
                        stream = [msgs[i] for i in seq]
                        # a message of a type this subscription does not cover, in the middle of the stream
                        other = next(f for f in foreign if type(f) is not type(msgs[0]))
                        if len(stream) > 1:
                            stream = stream[:1] + [other] + stream[1:]
                        exp_all = [sp["expect"](m) for m in stream if type(m) is type(msgs[0])]
                        if pos is None:
                            s.deliver(stream, one_chunk)
                            exp = exp_all
                        elif isinstance(pos, int):
                            own = 0
                            head: list[Any] = []
                            for m in stream:
                                if own >= pos:
                                    break
                                head.append(m)
                                if type(m) is type(msgs[0]):
                                    own += 1
                            tail = stream[len(head):]
                            if head:
                                s.deliver(head, one_chunk)
                            s.written()
                            unsub()
                            wr = s.written()
                            want = [sp["unsub_request"]] if sp["unsub_request"] else []
                            if [n for n, _ in wr] != want:
                                add(f"simple:{name}:unsub-request", f"{name}: unsubscribe wrote {[n for n, _ in wr]}, expected {want}")
                            if tail:
                                s.deliver(tail, one_chunk)
                            exp = exp_all[:pos]
                        else:
                            s.deliver(stream, one_chunk)
                            exp = exp_all[: pos[1]]
                        if got != exp:
                            kind = "after-unsub" if len(got) > len(exp) else "delivery"
                            add(f"simple:{name}:{kind}:{'in-handler' if isinstance(pos, tuple) else 'between'}",
                                f"{name}: stream {seq} one_chunk={one_chunk} unsubscribe at {pos}: handler calls {got} != expected {exp}",
                                {"subscription": name, "seq": seq, "one_chunk": one_chunk, "unsub": repr(pos)})
                    finally:
                        s.close()
    # home-assistant state subscriptions: both handlers / only the subscription handler
    ha = [pb.SubscribeHomeAssistantStateResponse(entity_id=f"sensor.e{i}", attribute=("attr" if i % 2 else ""), once=bool(o)) for i in range(2) for o in (0, 1)]
    for both in (True, False):
        for n in (1, 2, 3):
            for seq in itertools.product(range(len(ha)), repeat=n):
                for one_chunk in (True, False):
                    s = Sess()
                    try:
                        got = []
                        kw = {"on_state_request": (lambda e, a: got.append(("req", e, a)))} if both else {}
                        s.client.subscribe_home_assistant_states(lambda e, a: got.append(("sub", e, a)), **kw)
                        wr = s.written()
                        evals += 1
                        if [x for x, _ in wr] != ["SubscribeHomeAssistantStatesRequest"]:
                            add("simple:ha_states:subscribe-request", f"subscribe_home_assistant_states wrote {[x for x, _ in wr]}")
                        stream = [ha[i] for i in seq]
                        s.deliver(stream, one_chunk)
                        exp = [("req" if (m.once and both) else "sub", m.entity_id, m.attribute) for m in stream]
                        if got != exp:
                            add(f"simple:ha_states:{'both' if both else 'sub-only'}", f"HA state subscription (request handler={both}) stream "
                                f"{[(m.entity_id, m.once) for m in stream]}: calls {got} != {exp}")
                    finally:
                        s.close()
    return {"part": "simple", "evals": evals, "viol": viol}


# ---------------------------------------------------------------------------------------------------
# voice assistant
# ---------------------------------------------------------------------------------------------------
VA_ATOMS = ("start", "stop", "audio", "audio_end", "announce")
START_MODES = ("port_now", "port_later", "none_now", "none_later", "pending")


def run_voice(args: tuple[str, str]) -> dict[str, Any]:
    tier, start_mode = args
    env.load()
    import asyncio

    pb = env.pb()
    viol: list[tuple[str, str, Any]] = []
    seen: set[str] = set()
    evals = 0
    depth = 3 if tier == "quick" else 4

    def add(k: str, clause: str, detail: Any = None) -> None:
        if k not in seen:
            seen.add(k)
            viol.append((k, clause, detail))

    def msg(atom: str, i: int) -> Any:
        if atom == "start":
            m = pb.VoiceAssistantRequest(start=True, conversation_id=f"conv{i}", flags=i + 1, wake_word_phrase=("okay nabu" if i % 2 else ""))
            m.audio_settings.noise_suppression_level = i
            m.audio_settings.auto_gain = 2 * i
            m.audio_settings.volume_multiplier = 1.5
            return m
        if atom == "stop":
            return pb.VoiceAssistantRequest(start=False)
        if atom == "audio":
            return pb.VoiceAssistantAudio(data=f"pcm{i}".encode())
        if atom == "audio_end":
            return pb.VoiceAssistantAudio(end=True)
        return pb.VoiceAssistantAnnounceFinished(success=bool(i % 2))

    seqs = [p for n in range(1, depth + 1) for p in itertools.product(VA_ATOMS, repeat=n)]
    for with_audio, with_ann, early in ((True, True, False), (True, False, False), (False, True, False), (False, False, False), (True, True, True)):
        if True:
            for seq in seqs:
                if tier == "quick" and len(seq) == depth and (not with_audio or not with_ann) and seq[0] != "start":
                    continue
                if early and len(seq) > 2:
                    continue  # the client object was created before its loop existed: all sequences of one and two messages
                positions: list[Any] = [None] + list(range(len(seq) + 1))
                for pos in positions:
                    for one_chunk in ((True, False) if pos is None else (False,)):
                        s = Sess(early_client=early)
                        try:
                            calls: list[Any] = []
                            gates: list[Any] = []
                            nstart = [0]

                            async def h_start(conv: str, flags: int, settings: Any, wake: Any, _calls: list[Any] = calls,
                                              _gates: list[Any] = gates, _n: list[int] = nstart) -> Any:
                                n = _n[0]
                                _n[0] += 1
                                _calls.append(("start", conv, flags, settings.noise_suppression_level, settings.auto_gain,
                                               settings.volume_multiplier, wake))
                                if start_mode.endswith("later"):
                                    await asyncio.sleep(0)
                                if start_mode == "pending":
                                    fut = asyncio.get_running_loop().create_future()
                                    _gates.append(fut)
                                    try:
                                        await fut
                                    except asyncio.CancelledError:
                                        _calls.append(("start_cancelled", n))
                                        raise
                                return (6000 + n) if start_mode.startswith("port") else None

                            async def h_stop(abort: bool, _calls: list[Any] = calls) -> None:
                                _calls.append(("stop", abort))

                            async def h_audio(data: bytes, _calls: list[Any] = calls) -> None:
                                _calls.append(("audio", bytes(data)))

                            async def h_ann(fin: Any, _calls: list[Any] = calls) -> None:
                                _calls.append(("announce", fin.success))

                            kw: dict[str, Any] = {"handle_start": h_start, "handle_stop": h_stop}
                            if with_audio:
                                kw["handle_audio"] = h_audio
                            if with_ann:
                                kw["handle_announcement_finished"] = h_ann
                            unsub = s.client.subscribe_voice_assistant(**kw)
                            wr = s.written()
                            evals += 1
                            want_flags = 4 if with_audio else 0
                            if len(wr) != 1 or wr[0][0] != "SubscribeVoiceAssistantRequest" or not wr[0][1].subscribe or wr[0][1].flags != want_flags:
                                add("voice:subscribe-request", f"subscribe_voice_assistant(audio={with_audio}) wrote {wr!r}")
                            stream = [msg(a, i) for i, a in enumerate(seq)]
                            # reference
                            exp_calls: list[Any] = []
                            exp_writes: list[Any] = []
                            ns = 0
                            cut = len(seq) if pos is None else pos
                            for i, a in enumerate(seq[:cut]):
                                m = stream[i]
                                if a == "start":
                                    exp_calls.append(("start", m.conversation_id, m.flags, m.audio_settings.noise_suppression_level,
                                                      m.audio_settings.auto_gain, m.audio_settings.volume_multiplier, m.wake_word_phrase or None))
                                    if start_mode.startswith("port"):
                                        exp_writes.append(("VoiceAssistantResponse", 6000 + ns, False))
                                    elif start_mode.startswith("none"):
                                        exp_writes.append(("VoiceAssistantResponse", 0, True))
                                    ns += 1
                                elif a == "stop":
                                    exp_calls.append(("stop", True))
                                elif a == "audio" and with_audio:
                                    exp_calls.append(("audio", bytes(m.data)))
                                elif a == "audio_end" and with_audio:
                                    exp_calls.append(("stop", False))
                                elif a == "announce" and with_ann:
                                    exp_calls.append(("announce", m.success))
                            if pos is None:
                                s.deliver(stream, one_chunk)
                            else:
                                if stream[:pos]:
                                    s.deliver(stream[:pos], False)
                                unsub()
                                s.w.drain()
                                if stream[pos:]:
                                    s.deliver(stream[pos:], False)
                                exp_writes.append(("SubscribeVoiceAssistantRequest", None, None))
                            s.w.drain()
                            wr = s.written()
                            act_writes = [(n, m.port, m.error) if n == "VoiceAssistantResponse" else (n, None, None) for n, m in wr]
                            # a start handler that is still running when the subscription ends is cancelled and never answered
                            act_calls = [c for c in calls if c[0] != "start_cancelled"]
                            cancelled = [c for c in calls if c[0] == "start_cancelled"]
                            desc = {"seq": list(seq), "unsub_at": pos, "start_mode": start_mode, "audio": with_audio, "announce": with_ann, "one_chunk": one_chunk}
                            # concurrent background tasks may complete in any order only if they suspend; ours do not, except 'later' starts
                            if sorted(map(repr, act_calls)) != sorted(map(repr, exp_calls)) or (
                                not start_mode.endswith("later") and act_calls != exp_calls
                            ):
                                kind = "after-unsub" if len(act_calls) > len(exp_calls) and pos is not None else "handlers"
                                add(f"voice:{kind}:{start_mode}", f"voice assistant {desc}: handler calls {act_calls} != expected {exp_calls}", desc)
                            if sorted(map(repr, act_writes)) != sorted(map(repr, exp_writes)) or (
                                not start_mode.endswith("later") and act_writes != exp_writes
                            ):
                                add(f"voice:responses:{start_mode}", f"voice assistant {desc}: wrote {act_writes}, expected {exp_writes}", desc)
                            if start_mode == "pending" and pos is not None:
                                last_start = max((i for i, a in enumerate(seq[:pos]) if a == "start"), default=None)
                                if last_start is not None and not cancelled:
                                    add("voice:pending-start-not-cancelled", f"voice assistant {desc}: the running start handler was not cancelled by unsubscribe", desc)
                            for g in gates:
                                if not g.done():
                                    g.cancel()
                            if not s.alive():
                                raise HarnessError(f"voice: session died {desc}: {s.w.loop.errors[-1:]}")
                        finally:
                            s.close()
    if start_mode == "pending":
        # one client over two sessions: a start handler still running when the first session is lost must not answer into the second one
        for unsub_when in ("after-loss", "before-loss"):  # (an application that never unsubscribes is not constrained by the statement)
            s = Sess()
            try:
                w = s.w
                calls2: list[Any] = []
                gates2: list[Any] = []

                async def h_start2(conv: str, flags: int, settings: Any, wake: Any) -> Any:
                    calls2.append(("start", conv))
                    fut = asyncio.get_running_loop().create_future()
                    gates2.append(fut)
                    try:
                        return await fut
                    except asyncio.CancelledError:
                        calls2.append(("start_cancelled",))
                        raise

                async def h_stop2(abort: bool) -> None:
                    calls2.append(("stop", abort))

                unsub = s.client.subscribe_voice_assistant(handle_start=h_start2, handle_stop=h_stop2)
                s.deliver([msg("start", 0)], False)
                if unsub_when == "before-loss":
                    unsub()
                w.io_eof(s.sock)
                w.drain()
                if unsub_when == "after-loss":
                    unsub()  # the application cleans up after the disconnect
                w.drain()
                # second session on the same client
                w.spawn("start2", lambda: w.client.start_connection())
                w.drain()
                w.io_connect(w.sock, 0)
                w.drain()
                w.spawn("finish2", lambda: w.client.finish_connection(login=True))
                w.drain()
                w.io_chunk(w.sock, w.dframe(w.hello_resp()) + w.dframe(w.connect_resp()))
                w.drain()
                evals += 1
                if w.outcome("finish2") != "ok":
                    raise HarnessError(f"voice: second session failed: {w.results}")
                n0 = len(w.sent_frames())
                for g in gates2:
                    if not g.done():
                        g.set_result(1111)  # the old handler finishes late
                w.drain()
                ids = env.proto_ids()
                late = [ids.get(t, str(t)) for t, _ in w.sent_frames()[n0:]]
                d = {"scenario": "two-sessions", "unsub": unsub_when}
                if "VoiceAssistantResponse" in late:
                    add(f"voice:stale-answer:{unsub_when}", f"a start handler from the previous session finished after the reconnect and its answer "
                        f"was written into the new session ({late}); unsubscribe: {unsub_when}", d)
                if unsub_when != "never" and ("start_cancelled",) not in calls2 and "VoiceAssistantResponse" not in late:
                    add(f"voice:not-cancelled:{unsub_when}", f"unsubscribe ({unsub_when}) did not cancel the running start handler: {calls2}", d)
            finally:
                s.close()
    return {"part": f"voice:{start_mode}", "evals": evals, "viol": viol}


def run_resubscribe(tier: str) -> dict[str, Any]:
    """One long-lived client, consecutive sessions: what was left unfinished when a session ended (the first chunks of a camera image)
    is not part of the next session's stream - also when the application subscribes with the very same callback again - and every
    message of the new session produces exactly one callback."""
    env.load()
    pb = env.pb()
    viol: list[tuple[str, str, Any]] = []
    n = 0
    for ender in ("eof", "disconnect", "force"):
        for opener in ("two-phase", "connect"):
            for same_cb in (True, False):
                w = ConnWorld(client=True, login=True)
                try:
                    got: list[Any] = []

                    def cb(st: Any, _g: list[Any] = got) -> None:
                        _g.append(st)

                    async def on_stop(expected: bool) -> None:
                        return None

                    plan = [
                        [pb.CameraImageResponse(key=1, data=b"old-1|", done=False), pb.SensorStateResponse(key=3, state=1.0),
                         pb.CameraImageResponse(key=2, data=b"old-2|", done=False)],
                        [pb.CameraImageResponse(key=1, data=b"fresh-1", done=True), pb.SensorStateResponse(key=3, state=2.0),
                         pb.CameraImageResponse(key=2, data=b"fresh-2a|", done=False), pb.CameraImageResponse(key=2, data=b"fresh-2b", done=True)],
                        [pb.CameraImageResponse(key=2, data=b"third", done=True), pb.BinarySensorStateResponse(key=4, state=True)],
                    ]
                    expect = [
                        [("SensorState", 3, None)],
                        [("CameraState", 1, b"fresh-1"), ("SensorState", 3, None), ("CameraState", 2, b"fresh-2a|fresh-2b")],
                        [("CameraState", 2, b"third"), ("BinarySensorState", 4, None)],
                    ]
                    for i, msgs in enumerate(plan):
                        if opener == "two-phase":
                            w.spawn(f"start{i}", lambda: w.client.start_connection(on_stop=on_stop))
                            w.drain()
                            w.io_connect(w.sock, 0)
                            w.drain()
                            w.spawn(f"finish{i}", lambda: w.client.finish_connection(login=True))
                            last = f"finish{i}"
                        else:
                            w.spawn(f"connect{i}", lambda: w.client.connect(on_stop=on_stop, login=True))
                            w.drain()
                            w.io_connect(w.sock, 0)
                            last = f"connect{i}"
                        w.drain()
                        w.io_chunk(w.sock, w.dframe(w.hello_resp()) + w.dframe(w.connect_resp()))
                        w.drain()
                        if w.outcome(last) != "ok":
                            raise HarnessError(f"session {i} was not established: {w.results.get(last)}")
                        del got[:]
                        if same_cb or i == 0:
                            w.client.subscribe_states(cb)
                            sink = got
                        else:
                            sink = []
                            w.client.subscribe_states(sink.append)
                        for m in msgs:
                            w.io_chunk(w.sock, w.dframe(m))
                            w.drain()
                        n += 1
                        act = [(type(g).__name__, g.key, getattr(g, "data", None)) for g in sink]
                        if act != expect[i]:
                            viol.append((f"resubscribe:session{i + 1}", f"session {i + 1} of one client (previous one ended by {ender}, reopened with {opener}, "
                                         f"{'the same' if same_cb else 'a new'} callback subscribed): callbacks {act} != expected {expect[i]}",
                                         {"ender": ender, "opener": opener, "same_cb": same_cb}))
                        if not same_cb and i > 0 and got:
                            viol.append((f"resubscribe:old-subscription:session{i + 1}", f"the callback subscribed in an earlier session was called in session {i + 1}: "
                                         f"{[(type(g).__name__, g.key) for g in got]}", {"ender": ender, "opener": opener}))
                        sock = w.sock
                        if ender == "eof":
                            w.io_eof(sock)
                        elif ender == "disconnect":
                            w.spawn(f"disc{i}", lambda: w.client.disconnect())
                            w.drain()
                            if not sock.closed:
                                w.io_chunk(sock, w.dframe(pb.DisconnectResponse()))
                        else:
                            w.spawn(f"disc{i}", lambda: w.client.disconnect(force=True))
                        w.drain()
                        if not sock.closed:
                            raise HarnessError(f"session {i} did not end ({ender})")
                finally:
                    w.close()
    seen: set[str] = set()
    uniq = []
    for k, c, d in viol:
        if k not in seen:
            seen.add(k)
            uniq.append((k, c, d))
    return {"part": "resubscribe", "evals": n, "viol": uniq}


def _job(j: tuple[Any, ...]) -> dict[str, Any]:
    kind = j[0]
    if kind == "resub":
        return run_resubscribe(j[1])
    if kind == "states":
        return run_states(j[1])
    if kind == "camera":
        return run_camera((j[1], j[2]))
    if kind == "simple":
        return run_simple(j[1])
    return run_voice((j[1], j[2]))


def run(tier: str, seed: int) -> Result:
    env.load()
    res = Result("C17", "exploration")
    jobs: list[tuple[Any, ...]] = [("states", tier), ("simple", tier), ("resub", tier)]
    jobs += [("camera", tier, i) for i in range(len(camera_configs(tier)))]
    jobs += [("voice", tier, sm) for sm in START_MODES]
    ctx = mp.get_context("fork")
    with ctx.Pool(min(16, len(jobs), os.cpu_count() or 1)) as pool:
        results = pool.map(_job, jobs, chunksize=1)
    parts = {}
    total = 0
    for r in results:
        parts[r["part"]] = r["evals"]
        total += r["evals"]
        for k, clause, detail in r["viol"]:
            res.add(k, clause, detail)
    cam = sum(v for k, v in parts.items() if k.startswith("camera"))
    if not res.violations and (cam < 1500 or parts.get("states", 0) < 500 or total < 5000):
        raise HarnessError(f"vacuous: {parts}")
    res.coverage = {
        "evaluations": total,
        "distinct_nontrivial": total,
        "rule": "one evaluation = one stream delivered as real frames to a freshly subscribed (camera/simple/voice) or long-lived (states) session, with the "
        "user callbacks and the frames written compared with a reference computed from the stream; every evaluation carries at least one message",
        "per_part": parts,
        "camera_interleavings_executed": cam,
        "camera_distinct_callback_traces": sum(r.get("distinct", 0) for r in results),
        "state_types": next(r["types"] for r in results if r["part"] == "states"),
        "exhaustive": True,
        "samples": [{"job": list(map(str, j))} for j in jobs[:4]],
    }
    res.assumptions = [
        "'the model of that message's type' is taken from C14's independent pairing table, values are checked with C14's oracle",
        "voice-assistant handlers that suspend may complete in any order relative to each other; handlers that do not suspend must be called in arrival order",
        "a voice-assistant start whose handler is still running at unsubscribe time is cancelled and not answered",
        "subscribe_logs / subscribe_service_calls / subscribe_home_assistant_states / subscribe_states return no unsubscribe function in this API",
    ]
    return res


def replay(rp: dict[str, Any]) -> bool:
    r = run("quick", 0)
    bad = [v for v in r.violations if v.key == rp["key"]]
    print(rp["key"], "->", "still violated" if bad else "holds")
    for v in bad:
        print(" ", v.clause)
    return not bad
