"""C07 - stop callback fires exactly once per established session, with the right reason."""

from __future__ import annotations

import time
from typing import Any

from ..evidence import Result
from ..explore import Stats, explore_parallel
from ..lifecycle import LifeHarness, LifeWorld, Oracle
from ..vloop import HarnessError

ATOMS_PLAIN = ("H", "C", "DR", "DRESP", "PR", "ST", "UKD", "BAD", "PRE")
ATOMS_NOISE = ("NH", "H", "C", "DR", "DRESP", "ST", "UKD", "BAD", "TAMPER")
PAIRS = (
    ("C", "DR"), ("ST", "DR"), ("DR", "ST"), ("BAD", "DR"), ("DR", "BAD"), ("DRESP", "DR"), ("PR", "DR"), ("DR", "DR"),
    ("H", "DR"), ("DRESP", "ST"), ("H", "C"),
    # a well-formed frame followed in the same read by a byte that is no frame start: the frame in front is processed first
    ("DR", "PRE"), ("ST", "PRE"), ("PR", "PRE"),
)
NO_WRITE_HARMLESS = {"ST", "UK", "PRESP", "DRESP", "H", "C"}


class C07Oracle(Oracle):
    """Reference for the stop callback (DESIGN.md §9, 'Stop callback reason')."""

    def attach(self, w: LifeWorld) -> None:
        w.c07 = {"viol": [], "disc_called": None, "disc_tx_at_stop": None, "stop_facts": []}  # type: ignore[attr-defined]

        def on_stop(expected: bool) -> None:
            f = self.facts(w)
            w.c07["stop_facts"].append((expected, f))  # type: ignore[attr-defined]
            must_true = f["force"] or f["disc_effective"] or f["disc_tx"] or f["peer_dr_processed"]
            must_false = not f["force"] and not f["disc_called"] and not f["peer_dr_any"]
            if must_true and not expected:
                w.c07["viol"].append(f"C07:reason:on_stop(False) although a graceful disconnect had been initiated {self._why(f)}")  # type: ignore[attr-defined]
            if must_false and expected:
                w.c07["viol"].append("C07:reason:on_stop(True) although no disconnect call or request had happened")  # type: ignore[attr-defined]

        w.stop_hooks.append(on_stop)

    @staticmethod
    def _why(f: dict[str, Any]) -> str:
        return "(" + ",".join(k for k, v in f.items() if v is True) + ")"

    def facts(self, w: LifeWorld) -> dict[str, Any]:
        disc_called = bool(w.c07.get("disc_called")) or "disc" in w.tasks  # type: ignore[attr-defined]
        # disconnect() takes effect at once unless it has to wait for a connect phase still in flight
        disc_effective = bool(w.c07.get("disc_effective"))  # type: ignore[attr-defined]
        names = w.tx_names()
        peer_any = any("DR" in c["atoms"] for c in w.chunks)
        peer_processed = False
        for c in w.chunks:
            # internal request handlers exist from the moment the handshake is complete
            if c["recv_state"] not in ("CONNECTED", "HANDSHAKE_COMPLETE") or "DR" not in c["atoms"]:
                continue
            pre = c["atoms"][: c["atoms"].index("DR")]
            if getattr(w, "subscriber_raises", None) and "ST" in pre:
                continue  # the failing subscriber aborts the processing of this chunk: the request behind it is never seen
            if all(a in NO_WRITE_HARMLESS or (a == "PR" and c["armed"] is None) for a in pre):
                peer_processed = True
        return {
            "force": w.force_called,
            "disc_called": disc_called,
            "disc_effective": disc_effective,
            "disc_tx": "DisconnectRequest" in names,
            "peer_dr_any": peer_any,
            "peer_dr_processed": peer_processed,
        }

    def after_label(self, w: LifeWorld, label: str) -> None:
        pass

    def verdict(self, w: LifeWorld) -> list[str]:
        v = list(w.c07["viol"])  # type: ignore[attr-defined]
        n = len(w.stops)
        if n > 1:
            v.append(f"C07:count:on_stop called {n} times")
        if n >= 1 and not w.mon.ever_connected:
            v.append("C07:count:on_stop called although the connection never reached CONNECTED")
        if n == 0 and w.mon.ever_connected and not w.loop.busy() and w.transports and w.transports[-1].is_closing():
            # whatever the state says: the session's transport is gone and nothing is left to run - the session has ended
            v.append(f"C07:count:the established session's transport is closed and the loop is quiet, but the stop callback was never invoked "
                     f"(state reads {w.state()})")
        if n == 0 and w.mon.ever_connected and not w.loop.busy() and w.write_faults_raised:
            # a write error is a close cause whichever exception class the transport used for it
            v.append(f"C07:count:the transport refused a write of the established session and the loop is quiet, but the stop callback was "
                     f"never invoked (state reads {w.state()})")
        return v

    def finish(self, w: LifeWorld) -> list[str]:
        v = []
        n = len(w.stops)
        closed = w.state() == "CLOSED"
        if closed and w.mon.ever_connected and n != 1:
            v.append(f"C07:count:connection was established and is closed but on_stop was called {n} times")
        return v

    def key(self, w: LifeWorld) -> Any:
        c = w.c07  # type: ignore[attr-defined]
        return (bool(c.get("disc_effective")), tuple(sorted((k, v) for k, v in self.facts(w).items())), len(c["viol"]), w.write_faults_raised > 0)


class C07Harness(LifeHarness):
    def apply(self, w: LifeWorld, label: Any) -> None:
        base = label[1] if isinstance(label, list) else label
        if base == "disc":
            # decided before the call: is a connect phase still in flight?
            w.c07["disc_effective"] = not w.pending("finish")  # type: ignore[attr-defined]
            w.c07["disc_called"] = True  # type: ignore[attr-defined]
        super().apply(w, label)


def factory(noise: bool, seed: str, sub_raises: str | None = None) -> LifeHarness:
    return C07Harness(
        noise=noise,
        seed=seed,
        atoms=ATOMS_NOISE if noise else ATOMS_PLAIN,
        pairs=PAIRS,
        user=("finish", "disc", "force", "cancel"),
        misuse=False,
        oracles=(C07Oracle(),),
        subscriber_raises=sub_raises,
        faults=("wf:sync", "wf:async", "wf:rt"),
    )


SEEDS_PLAIN = ("opened", "hello_sent", "connected", "req_pending", "disc_pending", "pong_due", "disc_gave_up")
SEEDS_NOISE = ("hello_sent", "connected", "disc_pending")


def ownership_sweep(res: Result, only: str | None = None) -> int:
    """Client level, causes that need the keepalive machinery or nothing but the passage of time, with and without the application
    keeping a reference to the APIClient object (a session is kept alive by its socket, not by the application's variable):
    the stop callback is invoked exactly once, with the right argument."""
    import gc

    from ..world import ConnWorld, mk

    K = 10.0
    n = 0
    causes = ("eof", "device-disconnect-request", "silent-from-the-start", "first-ping-answered-then-silent",
              "two-pings-answered-then-silent", "state-after-ping-then-silent")
    for noise in (False, True):
        for cause in causes:
            for drop in (False, True):
                key = f"ownership:{'noise' if noise else 'plain'}:{cause}:{'client-dropped' if drop else 'client-kept'}"
                if only is not None and key != only:
                    continue
                w = ConnWorld(client=True, noise=noise, keepalive=K, login=True)
                stops: list[bool] = []
                try:
                    async def on_stop(expected: bool, _s: list[bool] = stops) -> None:
                        _s.append(bool(expected))

                    cl = w.client
                    w.spawn("connect", lambda: cl.connect(on_stop=on_stop, login=True))
                    w.drain()
                    w.io_connect(w.sock, 0)
                    w.drain()
                    if noise:
                        w.io_chunk(w.sock, w.noise_handshake_bytes())
                        w.drain()
                    w.io_chunk(w.sock, w.dframe(w.hello_resp()))
                    w.drain()
                    w.io_chunk(w.sock, w.dframe(w.connect_resp()))
                    w.drain()
                    if w.outcome("connect") != "ok":
                        raise HarnessError(f"ownership sweep: connect failed {w.results}")
                    t0 = w.loop.time()
                    sock = w.sock
                    if drop:
                        # the application forgets the client; only the callback it passed in remains in its hands
                        w.tasks.clear()
                        w.results.clear()
                        w.client = None
                        del cl
                        gc.collect()
                    want = [False]
                    if cause == "eof":
                        w.io_eof(sock)
                        w.drain()
                    elif cause == "device-disconnect-request":
                        w.io_chunk(sock, w.dframe(mk("DisconnectRequest")))
                        w.drain()
                        want = [True]
                    else:
                        answers = {"silent-from-the-start": 0, "first-ping-answered-then-silent": 1, "two-pings-answered-then-silent": 2,
                                   "state-after-ping-then-silent": 1}[cause]
                        t = t0
                        for _ in range(answers):
                            t += K
                            w.run_timers(t)  # a silent interval ends: the client pings
                            msg = mk("SensorStateResponse", key=1, state=1.0) if cause.startswith("state") else mk("PingResponse")
                            w.io_chunk(sock, w.dframe(msg))
                            w.drain()
                            t += K
                            w.run_timers(t)  # an interval with traffic: no ping at its end
                        w.run_timers(t + 8 * K)  # silence: ping at +K, declared dead 4.5 K later
                    w.run_timers(w.loop.time() + 1.0)
                    n += 1
                    if stops != want:
                        res.add(key, f"C07:client:{'missing' if not stops else 'wrong'}: close cause '{cause}' with the APIClient "
                                f"{'no longer referenced by the application' if drop else 'still referenced'}: stop callback calls {stops}, expected {want}",
                                {"harness": "c07-ownership", "key": key})
                finally:
                    w.close()
    return n


def run(tier: str, seed: int) -> Result:
    res = Result("C07", "model_checking")
    total = Stats()
    cfgs = []
    for s in SEEDS_PLAIN:
        cfgs.append((False, s, 3 if tier == "quick" else 4, 2))
    for s in SEEDS_NOISE:
        cfgs.append((True, s, 3 if tier == "quick" else 4, 1 if tier == "quick" else 2))
    # an application subscriber that raises (one more close cause: the exception takes the transport down), with and without a
    # request waiting, for exception classes a future accepts and one it refuses (StopIteration)
    for exc in ("ValueError", "StopIteration"):
        for s in ("connected", "req_pending"):
            cfgs.append((False, s, 2 if tier == "quick" else 3, 1, exc))
    cfgs.append((True, "req_pending", 2 if tier == "quick" else 3, 1, "StopIteration"))
    budget = 240.0 if tier == "quick" else 2400.0
    t_end = time.monotonic() + budget
    per_cfg = []
    for i, cfg in enumerate(cfgs):
        noise, sd, depth, bound = cfg[:4]
        sub_raises = cfg[4] if len(cfg) > 4 else None
        left = max(5.0, (t_end - time.monotonic()) / min(3, len(cfgs) - i))  # most configurations finish far below their share: a hungry one may take a third of what is left
        st = explore_parallel(factory, (noise, sd, sub_raises), depth=depth, bound=bound, budget_s=left, split_depth=1)
        per_cfg.append({"noise": noise, "seed_state": sd, "failing_subscriber": sub_raises, "depth": depth, "deviation_bound": bound, "executions": st.executions,
                        "states": st.states, "transitions": st.transitions, "time_capped": st.time_capped,
                        "distinct_outcomes": len(st.outcomes)})
        for v in st.violations:
            clause = next((c for c in v["violated"] if c.startswith("C07")), None)
            if clause is None:
                continue  # C05's clauses are C05's business
            key = f"{'noise' if noise else 'plain'}:{sd}{':subscriber-raises-' + sub_raises if sub_raises else ''}:{clause[:90]}"
            res.add(key, clause, {"harness": "lifecycle", "noise": noise, "seed_state": sd, "sub_raises": sub_raises, "choices": v["choices"],
                                  "violated": v["violated"], "observations": v["observations"]})
        total.merge(st)
    own = ownership_sweep(res)
    per_cfg.append({"level": "APIClient", "ownership_and_keepalive_causes": own})
    # client level: the callback given at connect time (per start_connection/connect call) - explored with the C19 client harness
    from . import c19

    cl_seeds = [("start", "tcp_ok", "finish", "hello"), ("connect", "tcp_ok", "hello"), ("start", "tcp_ok"), (),
                ("@early-client", "start", "tcp_ok", "finish", "hello")]
    # the application's stop callback starts the next session at once (before it first suspends), as a reconnect manager does: the
    # session so started has its own callback, which must be the one invoked when *it* ends
    cl_seeds_rec = [("start", "tcp_ok", "finish", "hello", "eof"), ("start", "tcp_ok", "finish", "hello", "DR"), ("connect", "tcp_ok", "hello", "eof")]
    # an earlier session's stop callback is slow (still running as a background task of the client during the next session)
    cl_seeds_slow = [("start", "tcp_ok", "finish", "hello", "eof", "start", "tcp_ok", "finish", "hello")]
    client_execs = 0
    for i, sd in enumerate(cl_seeds + cl_seeds_rec + cl_seeds_slow):
        rec = len(cl_seeds) <= i < len(cl_seeds) + len(cl_seeds_rec)
        slow = i >= len(cl_seeds) + len(cl_seeds_rec)
        depth, bound = (3, 1) if tier == "quick" else (5, 2)
        st = explore_parallel(c19.factory, (sd, True, rec, slow), depth=depth, bound=bound, budget_s=60.0 if tier == "quick" else 600.0, split_depth=1)
        client_execs += st.executions
        per_cfg.append({"level": "APIClient", "seed": list(sd), "stop_callback_reconnects_immediately": rec, "stop_callback_slow": slow, "depth": depth, "deviation_bound": bound, "executions": st.executions,
                        "states": st.states, "transitions": st.transitions, "time_capped": st.time_capped})
        for v in st.violations:
            clause = v["violated"][0]
            res.add("client:" + ":".join(clause.split(":")[:3])[:80], clause, {"harness": "c19-client", "seed": list(sd), "c07": True, "reconnect": rec, "slow_stop": slow,
                                                                              "choices": v["choices"], "violated": v["violated"], "observations": v["observations"]})
        total.time_capped = total.time_capped or st.time_capped
        total.executions += st.executions
        total.transitions += st.transitions
    stops_true = sum(n for k, n in total.outcomes.items() if "stops=[True]" in k)
    stops_false = sum(n for k, n in total.outcomes.items() if "stops=[False]" in k)
    stops_none = sum(n for k, n in total.outcomes.items() if "stops=[]" in k)
    if not res.violations and (stops_true < 10 or stops_false < 10 or stops_none < 10):
        raise HarnessError(f"vacuous: on_stop(True)={stops_true} on_stop(False)={stops_false} none={stops_none}")
    res.coverage = {
        "states": total.states,
        "transitions": total.transitions,
        "traces_validated_against_impl": total.executions,
        "executions": total.executions,
        "executions_ending_on_stop_true": stops_true,
        "executions_ending_on_stop_false": stops_false,
        "executions_without_on_stop": stops_none,
        "distinct_outcomes": len(total.outcomes),
        "configs": per_cfg,
        "exhaustive": not total.time_capped,
        "caps_hit": ["wall-clock budget"] if total.time_capped else [],
        "samples": total.samples[:3],
    }
    res.assumptions = [
        "ambiguous zone accepted with either argument: disconnect() called while a connect phase was still in flight and not yet "
        "written its request; a device disconnect request that arrived but was preceded in its chunk by a frame that closes/writes",
        "'established' = the per-callback monitor saw the CONNECTED state",
        "client level: every start_connection/connect call passes its own callback; only the callback of the call that owns the session may "
        "be invoked, once, and the callback of a refused call never",
    ]
    return res


def replay(rp: dict[str, Any]) -> bool:
    d = rp["detail"]
    if d.get("harness") == "c07-ownership":
        r = Result("C07", "model_checking")
        ownership_sweep(r, only=d["key"])
        print(d["key"], "->", [v.clause for v in r.violations] or "holds")
        return not r.violations
    if d.get("harness") == "c19-client":
        from . import c19

        return c19.replay(rp)
    h = factory(d["noise"], d["seed_state"], d.get("sub_raises"))
    w = h.fresh()
    try:
        v: list[str] = []
        for lab in d["choices"]:
            h.apply(w, lab)
            v = h.verdict(w)
            if v:
                break
        else:
            v = h.finish(w)
        for line in w.log:
            print(line)
        print("violated:", v)
        return not v
    finally:
        h.close(w)
