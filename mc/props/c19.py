"""C19 - the client never wedges and refuses work unless a session is alive.

Stateless explicit-state exploration of one APIClient over several consecutive sessions: every sequence
(depth / deviation bounded, fingerprint-pruned) of user calls {start_connection, finish_connection,
connect, disconnect(), disconnect(force), a command, a subscription, a request} - each its own task, also
while others are pending and also before the loop has drained - and device/fault events {TCP ok/refused,
hello ok / bad version / bad name, EOF, peer disconnect request, garbage, time -> next timer}.

Reference: a session automaton driven only by what the caller can observe (call returns, stop callback)
plus what the environment knows it delivered.  After every execution the client is probed: disconnect(),
then a complete new connect must be accepted and must reach a usable session.
"""

from __future__ import annotations

import time
from typing import Any

from .. import fingerprint
from ..evidence import Result
from ..explore import Stats, explore_parallel
from ..vloop import HarnessError
from ..world import ConnWorld, mk

ATTEMPT = ("start", "finish", "connect")
WORK = ("cmd", "sub", "req")


class Canon19(fingerprint.Canon):
    def _c(self, v: Any) -> Any:
        if type(v).__name__ == "FakeSocket":
            return ("sock", v.closed, v.connect_result, tuple(self(x) for x in v.inbox))
        return super()._c(v)


class CliWorld(ConnWorld):
    def __init__(self, noise: bool = False, login: bool = False) -> None:
        super().__init__(client=True, keepalive=1e6, expected_name="dev", login=login, noise=noise, password="pw" if login else None)
        self.viol: list[str] = []
        self.inflight: dict[str, str] = {}  # task name -> kind, attempt calls accepted and not yet returned
        self.between = False
        self.alive = False
        self.disc_inflight = 0
        self.hello_on: set[int] = set()  # sockets on which a good hello was delivered
        self.user_stops: list[bool] = []
        self.counter = 0
        self.tags: set[str] = set()
        self.ret_hook = self._ret
        self.sessions = 0
        self.viol07: list[str] = []
        self.refused_calls: set[str] = set()
        self.stopped_calls: set[str] = set()
        self.established: set[str] = set()
        self.session_call: str | None = None  # the accepted start/connect call that owns the current connection
        self.finish_owner: dict[str, str] = {}
        self.reconnect_in_callback: Any = None
        self.epoch = 0  # number of accepted start/connect calls: identifies "the connection a disconnect() was called on"
        self.disc_scope: dict[str, tuple[int, tuple[str, ...]]] = {}
        self.disc_when_alive: set[str] = set()  # disconnect calls issued while the session was established
        self.peer_dr_epoch = -1  # the device asked to disconnect during this epoch

    def make_on_stop(self, call: str) -> Any:
        """A distinct stop callback per start_connection/connect call (C07 at client level: the callback given at connect time)."""

        async def cb(expected: bool) -> None:
            self.user_stops.append(expected)
            self.note("user_on_stop", call, expected)
            was_alive = self.alive
            self.alive = False
            self.between = False
            if call in self.refused_calls:
                self.viol07.append(f"C07:client:foreign-callback: the stop callback given to the refused call {call} was invoked")
            elif call != self.session_call:
                self.viol07.append(f"C07:client:wrong-callback: session established through {self.session_call} ended, but the stop callback "
                                   f"given to {call} was invoked")
            if call in self.stopped_calls:
                self.viol07.append(f"C07:client:twice: the stop callback given to {call} was invoked twice")
            # the argument: a disconnect()/disconnect(force) call made on this established session with no connect phase in flight
            # takes effect at once - whatever closes the connection afterwards, the end was asked for
            mine = [(n, infl) for n, (ep, infl) in self.disc_scope.items() if ep == self.epoch]
            asked = [n for n, infl in mine if not infl and n in self.disc_when_alive]
            if asked and not expected:
                self.viol07.append(f"C07:client:reason: the application had called {asked[0].split('#')[0]}() on the established session before it "
                                   f"closed, but the stop callback was told the end was unexpected")
            if not mine and self.peer_dr_epoch != self.epoch and expected:
                self.viol07.append("C07:client:reason: the stop callback was told the end was expected although neither the application nor the device asked for it")
            self.stopped_calls.add(call)
            del was_alive
            if self.reconnect_in_callback is not None:
                self.reconnect_in_callback(self)
            if getattr(self, "slow_stop", False):
                import asyncio as _asyncio

                await _asyncio.sleep(8.0)

        return cb

    def _ret(self, name: str) -> None:
        kind = name.split("#")[0]
        out = self.outcome(name)
        if kind in ATTEMPT:
            from aioesphomeapi.core import APIConnectionError

            r = self.results[name]
            if r[0] == "exc" and not isinstance(r[1], APIConnectionError):
                self.viol.append(f"C19:attempt-crashed:{kind}: {kind} ended with {type(r[1]).__name__}: {r[1]} (not a connection error)")
            if r[0] == "ok" and name not in self.inflight:
                self.viol.append(f"C19:attempt-survived-disconnect:{kind}: {kind} returned normally although disconnect() had returned meanwhile")
        if kind in ATTEMPT and name in self.inflight:
            del self.inflight[name]
            if out == "ok":
                if kind == "start":
                    self.between = True
                else:
                    self.alive = True
                    self.sessions += 1
                    self.tags.add("session")
                    self.established.add(self.finish_owner.get(name, name))
            else:
                self.tags.add(f"{kind}-failed")
        elif kind in ("disc", "force"):
            if kind == "disc":
                self.disc_inflight -= 1
                if out == "cancelled":
                    # a disconnect() the caller abandoned has closed nothing: attempts keep running, a live session stays alive
                    return
            # "after disconnect() was called at any stage": the connection it was called on is gone; attempts on it that are
            # still unwinding are doomed and no longer count.  A newer attempt accepted meanwhile is not affected.
            ep, names = self.disc_scope.get(name, (self.epoch, tuple(self.inflight)))
            for n in names:
                self.inflight.pop(n, None)
            if ep == self.epoch:
                self.alive = False
                self.between = False

    def live_sock(self) -> Any:
        for s in reversed(self.net.sockets):
            if not s.closed:
                return s
        return None

    def total_sent(self) -> int:
        return sum(len(b) for s in self.net.sockets for _, b in s.sent)


def _refused_already(w: CliWorld, name: str) -> bool:
    from aioesphomeapi.core import APIConnectionError

    r = w.results.get(name)
    return r is not None and r[0] == "exc" and isinstance(r[1], APIConnectionError) and "Already connected" in str(r[1])


class CliHarness:
    def __init__(self, seed: tuple[str, ...], probe: bool = True, c07: bool = False, reconnect: bool = False, slow_stop: bool = False) -> None:
        # "@early-client": the APIClient object was created before the running loop existed (module-level client, then asyncio.run)
        self.early_client = bool(seed) and seed[0] == "@early-client"
        self.seed = list(seed[1:] if self.early_client else seed)
        self.can_fp = True
        self.probe = probe
        self.c07 = c07  # report the client-level stop-callback clauses (C07) instead of the C19 clauses
        self.reconnect = reconnect  # the user's stop callback immediately starts a new connection
        self.slow_stop = slow_stop  # the user's stop callback takes its time (it awaits something for 8 s before it returns)

    def fresh(self) -> CliWorld:
        from .. import world as _world

        _world.FOREIGN_LOOP_CLIENT[0] = self.early_client
        try:
            w = CliWorld()
        finally:
            _world.FOREIGN_LOOP_CLIENT[0] = False
        w.slow_stop = self.slow_stop
        if self.reconnect:
            w.reconnect_in_callback = lambda ww: self._attempt(ww, "start")
        for lab in self.seed:
            self.apply(w, lab)
        return w

    # --- enabled ---------------------------------------------------------------------------------
    def enabled(self, w: CliWorld) -> list[Any]:
        if self.verdict(w):
            return []
        base: list[Any] = ["start", "connect"]
        if w.between and not w.inflight:
            base.append("finish")
        base += ["disc", "force", "cmd", "sub", "req"]
        if any(n.startswith("disc#") and w.pending(n) for n in w.tasks):
            # the caller gives up on a graceful disconnect() that has not returned yet (its own timeout, a cancelled task)
            base.append("cancel_disc")
        if w.inflight:
            # the caller gives up on a connect phase that has not returned yet: one more way for an attempt to fail
            base.append("cancel_attempt")
        if w.alive or any(k in ("finish", "connect") for k in w.inflight.values()):
            # a redundant finish_connection(): the session is alive, or the second connect phase is already running
            base.append("refinish")
        io: list[Any] = []
        conning = w.net.connecting()
        if conning:
            io += ["tcp_ok", "tcp_refused"]
        s = w.live_sock()
        if s is not None and s.connect_result == 0 and not conning:
            io += ["hello", "hello_badver", "hello_badname", "eof", "DR", "garbage"]
            if any(n.startswith("req#") and w.pending(n) for n in w.tasks):
                # the device answers the outstanding request - alone, or in one chunk with its request to disconnect
                io += ["DI", "DI+DR"]
        nt = w.loop.next_timer_at()
        tm = ["time"] if nt is not None and nt <= w.loop.time() + 1000 else []
        out = base + io + tm
        out += [["nd", b] for b in base + io]
        return out

    def cost(self, label: Any) -> int:
        return 1 if isinstance(label, list) else 0

    # --- apply -------------------------------------------------------------------------------------
    def apply(self, w: CliWorld, label: Any) -> None:
        nd = False
        if isinstance(label, list):
            nd = True
            label = label[1]
        w.note("ev", ("nd:" if nd else "") + label)
        io = False
        if label in ("start", "connect", "finish"):
            self._attempt(w, label)
        elif label == "refinish":
            # whatever this call does (it is expected to be refused), it changes nothing: the session stays alive, the running
            # attempt stays in progress - so a later start must still be refused and commands must still be served
            w.counter += 1
            w.spawn(f"refinish#{w.counter}", lambda: w.client.finish_connection(login=w.login))
        elif label in ("disc", "force"):
            w.counter += 1
            name = f"{label}#{w.counter}"
            w.disc_scope[name] = (w.epoch, tuple(w.inflight))
            if w.alive:
                w.disc_when_alive.add(name)
            if label == "disc":
                w.disc_inflight += 1
                w.spawn(name, lambda: w.client.disconnect())
            else:
                w.spawn(name, lambda: w.client.disconnect(force=True))
        elif label == "cancel_attempt":
            w.cancel(next(n for n in w.tasks if n in w.inflight and w.pending(n)))
        elif label == "cancel_disc":
            w.cancel(next(n for n in w.tasks if n.startswith("disc#") and w.pending(n)))
        elif label in WORK:
            self._work(w, label)
        elif label in ("tcp_ok", "tcp_refused"):
            io = True
            s = w.net.connecting()[0]
            w.io_connect(s, 0 if label == "tcp_ok" else 111)
        elif label.startswith("hello"):
            io = True
            s = w.live_sock()
            if label == "hello":
                m = w.hello_resp()
                w.hello_on.add(s.fd)
            elif label == "hello_badpw":
                w.io_chunk(s, w.dframe(w.hello_resp()) + w.dframe(w.connect_resp(invalid=True)))
                m = None
            elif label == "hello_badver":
                m = w.hello_resp(major=3, minor=0)
            else:
                m = w.hello_resp(name="other")
            if m is not None:
                data = w.dframe(m)
                if label == "hello" and w.login:
                    data += w.dframe(w.connect_resp())
                w.io_chunk(s, data)
        elif label == "nh":
            io = True
            w.io_chunk(w.live_sock(), w.noise_handshake_bytes())
        elif label == "eof":
            io = True
            w.io_eof(w.live_sock())
        elif label in ("DI", "DI+DR"):
            io = True
            if label == "DI+DR":
                w.peer_dr_epoch = w.epoch
            data = w.dframe(mk("DeviceInfoResponse", name="dev", mac_address="AA:BB:CC:DD:EE:FF"))
            if label == "DI+DR":
                data += w.dframe(mk("DisconnectRequest"))
            w.io_chunk(w.live_sock(), data)
        elif label == "DR":
            io = True
            w.peer_dr_epoch = w.epoch
            w.io_chunk(w.live_sock(), w.dframe(mk("DisconnectRequest")))
        elif label == "garbage":
            io = True
            w.io_chunk(w.live_sock(), b"\x7fgarbage")
        elif label == "time":
            w.drain()
            w.advance_next_timer()
        else:
            raise HarnessError(label)
        if not nd:
            w.drain()
        elif io:
            w.step()

    def _attempt(self, w: CliWorld, kind: str) -> None:
        w.counter += 1
        name = f"{kind}#{w.counter}"
        socks = len(w.net.sockets)
        if kind == "finish":
            # legal use only: after a successful start_connection, nothing else in flight
            w.between = False
            w.inflight[name] = kind
            w.finish_owner[name] = w.session_call or name
            w.spawn(name, lambda: w.client.finish_connection(login=w.login))
            return
        must_accept = not w.inflight and not w.between and not w.alive
        # an attempt whose socket is already gone (the device hung up, the connection is closed) but whose call has not yet been resumed
        # to return its error is over in substance: until it returns, a new attempt may be accepted or refused
        doomed = bool(w.inflight) and w.live_sock() is None and not w.net.connecting() and not w.alive
        must_refuse = (bool(w.inflight) and not doomed) or w.alive
        w.inflight[name] = kind
        prev_owner = w.session_call
        w.session_call = name  # provisional: set before the call so that a callback firing inside it is attributed correctly
        cb = w.make_on_stop(name)
        if kind == "start":
            w.spawn(name, lambda: w.client.start_connection(on_stop=cb))
        else:
            w.spawn(name, lambda: w.client.connect(on_stop=cb, login=False))
        refused = _refused_already(w, name)
        if refused:
            w.session_call = prev_owner
            w.refused_calls.add(name)
            w.tags.add("refused")
            if len(w.net.sockets) != socks:
                w.viol.append(f"C19:refused-with-side-effect:{kind}: a refused {kind} opened a socket")
            if must_accept:
                w.viol.append(f"C19:wedged:{kind}: {kind} refused with 'already connected' although no attempt is in progress and no session is alive")
        else:
            w.tags.add("accepted")
            w.epoch += 1
            if must_refuse:
                # undo the book-keeping: the call is running, so later checks would be confused anyway
                w.viol.append(f"C19:double-connect:{kind}: {kind} accepted although an attempt is in progress or a session is alive "
                              f"(in flight: {sorted(set(w.inflight.values()) - {kind}) or list(w.inflight.values())}, alive: {w.alive})")

    def _work(self, w: CliWorld, kind: str) -> None:
        from aioesphomeapi.core import APIConnectionError

        w.counter += 1
        name = f"{kind}#{w.counter}"
        s = w.live_sock()
        maybe = any(k in ("finish", "connect") for k in w.inflight.values()) and s is not None and s.fd in w.hello_on
        must_refuse = not w.alive and not maybe
        must_accept = w.alive and w.disc_inflight == 0
        before = w.total_sent()
        exc: BaseException | None = None
        if kind == "req":
            w.spawn(name, lambda: w.client.device_info())
            r = w.results.get(name)
            if r is not None and r[0] == "exc":
                exc = r[1]
        else:
            w.note("call", name)
            try:
                if kind == "cmd":
                    w.client.switch_command(1, True)
                else:
                    w.client.subscribe_states(lambda st: None)
            except BaseException as e:  # noqa: BLE001
                exc = e
            w.note("ret", name, "ok" if exc is None else type(exc).__name__)
        wrote = w.total_sent() - before
        if must_refuse:
            w.tags.add("work-refused")
            if exc is None:
                w.viol.append(f"C19:work-without-session:{kind}: {kind} was accepted although no authenticated session is alive")
            elif not isinstance(exc, APIConnectionError):
                w.viol.append(f"C19:work-wrong-error:{kind}: {kind} without a session raised {type(exc).__name__}: {exc} (not a connection error)")
            if wrote:
                w.viol.append(f"C19:work-wrote:{kind}: {kind} without a session wrote {wrote} bytes")
        elif must_accept:
            w.tags.add("work-accepted")
            if exc is not None:
                w.viol.append(f"C19:work-refused-in-session:{kind}: {kind} raised {type(exc).__name__}: {exc} although the session is alive")
            elif not wrote and kind != "req":
                # (a request may legitimately be answered from what the session already knows; a command or subscription has to reach the device)
                w.viol.append(f"C19:work-not-sent:{kind}: {kind} in a live session wrote nothing")
        elif exc is not None and not isinstance(exc, APIConnectionError):
            w.viol.append(f"C19:work-wrong-error:{kind}: {kind} raised {type(exc).__name__}: {exc} (not a connection error)")

    # --- oracle ----------------------------------------------------------------------------------------
    def verdict(self, w: CliWorld) -> list[str]:
        return list(w.viol07) if self.c07 else list(w.viol)

    def finish(self, w: CliWorld) -> list[str]:
        """Quiesce, then probe: the client must take a complete new session."""
        w.drain()
        w.run_timers(w.loop.time() + 400.0)
        if self.c07:
            # end whatever session is left, then every established session must have seen its own callback exactly once
            w.reconnect_in_callback = None
            w.disc_inflight += 1
            w.disc_scope["disc#probe"] = (w.epoch, tuple(w.inflight))
            w.spawn("disc#probe", lambda: w.client.disconnect())
            w.drain()
            w.run_timers(w.loop.time() + 60.0)
            v = list(w.viol07)
            for call in sorted(w.established):
                if call not in w.stopped_calls:
                    v.append(f"C07:client:missing: the session established through {call} has ended but its stop callback was never invoked")
            return v
        if w.viol:
            return list(w.viol)
        v: list[str] = []
        stuck = [n for n in w.tasks if w.pending(n) and n.split("#")[0] != "req"]
        if stuck:
            v.append(f"C19:hang: calls never returned: {stuck}")
            return v
        if not self.probe:
            return v
        # whatever state we are in, disconnect() must bring the client back to idle
        w.note("ev", "probe")
        w.reconnect_in_callback = None  # the probe drives the reconnect itself
        w.disc_inflight += 1
        w.disc_scope["disc#probe"] = (w.epoch, tuple(w.inflight))
        w.spawn("disc#probe", lambda: w.client.disconnect())
        w.drain()
        w.run_timers(w.loop.time() + 60.0)
        if w.pending("disc#probe"):
            return ["C19:probe: disconnect() never returned"]
        if w.inflight:
            return [f"C19:probe: attempt calls still in flight after everything quiesced: {sorted(w.inflight)}"]
        self._attempt(w, "start")
        w.drain()
        if w.viol:
            return [x.replace("C19:wedged:start", "C19:wedged-after-history:start") for x in w.viol]
        if not w.net.connecting():
            return ["C19:probe: the accepted start_connection opened no socket"]
        self.apply(w, "tcp_ok")
        if not w.between:
            return [f"C19:probe: start_connection did not succeed on a fresh attempt: {w.results.get(f'start#{w.counter}')}"]
        self.apply(w, "finish")
        self.apply(w, "hello")
        if not w.alive:
            return ["C19:probe: finish_connection did not produce a live session on a fresh attempt"]
        self._work(w, "cmd")
        return list(w.viol)

    def outcome(self, w: CliWorld) -> str:
        return f"sessions={w.sessions},alive={w.alive},between={w.between}"

    def tags(self, w: CliWorld) -> list[str]:
        return sorted(w.tags)

    def observe(self, w: CliWorld) -> Any:
        return list(w.log)

    def fingerprint(self, w: CliWorld) -> Any:
        if not self.can_fp:
            return None
        try:
            c = Canon19(w.loop)
            pend = tuple(sorted((n.split("#")[0], repr(fingerprint.task_point(t))) for n, t in w.tasks.items() if w.pending(n)))
            fp = (
                c.obj(w.client),
                fingerprint.loop_canon(w.loop),
                pend,
                tuple(c(s) for s in w.net.sockets if not s.closed),
                tuple(sorted(w.inflight.values())), w.between, w.alive, w.disc_inflight, tuple(sorted((n.split("#")[0], w.epoch - e, len(x)) for n, (e, x) in w.disc_scope.items() if w.pending(n))),
                (w.live_sock().fd in w.hello_on) if w.live_sock() is not None else None,
            )
            return hash(fp)
        except fingerprint.CannotCanon:
            self.can_fp = False
            return None

    def close(self, w: CliWorld) -> None:
        w.close()


# ---------------------------------------------------------------------------------------------------
# API-surface sweep: every public entry point at every stage without a session
# ---------------------------------------------------------------------------------------------------
STAGES: dict[str, tuple[str, ...]] = {
    "never-connected": (),
    "tcp-connecting": ("start",),
    "between-phases": ("start", "tcp_ok"),
    "waiting-for-hello": ("start", "tcp_ok", "finish"),
    "after-refused-tcp": ("start", "tcp_refused"),
    "after-bad-version": ("start", "tcp_ok", "finish", "hello_badver"),
    "after-peer-ended-session": ("start", "tcp_ok", "finish", "hello", "DR"),
    "after-eof": ("start", "tcp_ok", "finish", "hello", "eof"),
    "after-disconnect": ("start", "tcp_ok", "finish", "hello", "disc", "time"),
    "after-force-disconnect": ("start", "tcp_ok", "finish", "hello", "force"),
    "after-disconnect-between-phases": ("start", "tcp_ok", "disc"),
    # a device that rejects the password: the attempt must fail, and nothing may be treated as an authenticated session afterwards
    "after-invalid-password": ("login", "start", "tcp_ok", "finish", "hello_badpw"),
    "after-invalid-password-noise": ("login", "noise", "start", "tcp_ok", "finish", "nh", "hello_badpw"),
    "waiting-for-login-noise": ("login", "noise", "start", "tcp_ok", "finish", "nh"),
}


def surface_calls() -> list[tuple[str, dict[str, Any]]]:
    """(method, kwargs) for every public APIClient entry point; commands with no, all-typical and all-falsy optional arguments."""
    import inspect

    from aioesphomeapi import model
    from aioesphomeapi.client import APIClient

    from . import c13, c15

    out: list[tuple[str, dict[str, Any]]] = []
    specs = c15.specs()
    for n, fn in inspect.getmembers(APIClient, predicate=inspect.isfunction):
        if n.startswith("_") or n in c13.SKIP_METHODS:
            continue
        if n in specs:
            sp = specs[n]
            req = {r[0]: r[1][-1] for r in sp.get("req", [])}
            out.append((n, {"key": 1, **req}))
            out.append((n, {"key": 1, **req, **{a.name: a.typical for a in sp["opt"]}}))
            out.append((n, {"key": 1, **req, **{a.name: a.falsy for a in sp["opt"]}}))
            for a in sp["opt"]:
                out.append((n, {"key": 1, **req, a.name: a.typical}))
            continue
        sig = inspect.signature(fn)
        kwargs = {}
        try:
            for pn, p in list(sig.parameters.items())[1:]:
                ann = p.annotation if isinstance(p.annotation, str) else getattr(p.annotation, "__name__", str(p.annotation))
                kwargs[pn] = c13.synth(pn, ann, model)
        except ValueError:
            continue
        out.append((n, kwargs))
        # optional parameters left at their defaults as well
        minimal = {pn: v for pn, v in kwargs.items() if sig.parameters[pn].default is inspect.Parameter.empty}
        if minimal != kwargs:
            out.append((n, minimal))
    return out


def surface_sweep(res: Result) -> dict[str, Any]:
    import inspect

    from aioesphomeapi.core import APIConnectionError

    calls = surface_calls()
    h = CliHarness(())
    n = 0
    methods = set()
    for stage, labels in STAGES.items():
        for meth, kwargs in calls:
            w = CliWorld(noise="noise" in labels, login="login" in labels)
            try:
                for lab in labels:
                    if lab in ("noise", "login"):
                        continue
                    h.apply(w, lab)
                if w.alive and "invalid-password" in stage:
                    res.add(f"C19:surface:{stage}:session", f"stage '{stage}': the device flagged the password invalid, yet the client reports an "
                            "established session (every command would now be written to a device that never authenticated it)", {"stage": stage})
                    break
                if w.alive or w.viol:
                    raise HarnessError(f"stage {stage} did not end without a session: alive={w.alive} {w.viol}")
                before = w.total_sent()
                fn = getattr(w.client, meth)
                exc: BaseException | None = None
                if inspect.iscoroutinefunction(fn):
                    w.spawn("call", lambda: fn(**kwargs))
                    w.drain()
                    r = w.results.get("call")
                    if r is None:
                        res.add(f"C19:surface:{meth}:pending", f"{meth}({kwargs}) at stage {stage} neither raised nor returned",
                                {"stage": stage, "method": meth, "kwargs": repr(kwargs)})
                        continue
                    exc = r[1] if r[0] != "ok" else None
                else:
                    try:
                        fn(**kwargs)
                    except BaseException as e:  # noqa: BLE001
                        exc = e
                n += 1
                methods.add(meth)
                wrote = w.total_sent() - before
                d = {"stage": stage, "method": meth, "kwargs": repr(kwargs)}
                if exc is None:
                    res.add(f"C19:surface:{meth}:accepted", f"{meth}({kwargs}) was accepted at stage '{stage}' (no authenticated session alive)", d)
                elif not isinstance(exc, APIConnectionError):
                    res.add(f"C19:surface:{meth}:wrong-error", f"{meth}({kwargs}) at stage '{stage}' raised {type(exc).__name__}: {exc} "
                            "(not a connection error)", d)
                if wrote:
                    res.add(f"C19:surface:{meth}:wrote", f"{meth}({kwargs}) at stage '{stage}' wrote {wrote} bytes without a session", d)
            finally:
                w.close()
    return {"surface_calls": n, "surface_methods": len(methods), "surface_stages": len(STAGES)}


def factory(seed: tuple[str, ...], c07: bool = False, reconnect: bool = False, slow_stop: bool = False) -> CliHarness:
    return CliHarness(seed, c07=c07, reconnect=reconnect, slow_stop=slow_stop)


SEEDS: list[tuple[str, ...]] = [
    (),
    ("start",),
    ("start", "tcp_ok"),
    ("start", "tcp_ok", "finish"),
    ("start", "tcp_ok", "finish", "hello"),
    ("connect", "tcp_ok"),
    ("start", "tcp_ok", "finish", "hello", "DR"),
    ("start", "tcp_ok", "finish", "hello", "disc"),
]


def failing_callback_runs(res: Result, only: str | None = None) -> int:
    """An application callback that raises while a message is delivered (the exception takes the transport down): the session is over,
    so the stop callback fires, waiting requests fail with a connection error, commands are refused and a fresh connect() completes."""
    from aioesphomeapi.core import APIConnectionError

    from ..world import ConnWorld, mk

    n = 0
    for noise in (False, True):
        for exc_name in ("ValueError", "StopIteration", "KeyError", "OSError", "TimeoutError"):
            for pending in (False, True):
                key = f"failing-callback:{'noise' if noise else 'plain'}:{exc_name}:{'request-pending' if pending else 'idle'}"
                if only is not None and key != only:
                    continue
                exc_cls = {"ValueError": ValueError, "StopIteration": StopIteration, "KeyError": KeyError, "OSError": OSError, "TimeoutError": TimeoutError}[exc_name]
                w = ConnWorld(client=True, noise=noise, keepalive=1e6, login=True)
                stops: list[bool] = []
                try:
                    async def on_stop(expected: bool, _s: list[bool] = stops) -> None:
                        _s.append(bool(expected))

                    def connect(tag: str) -> None:
                        w.spawn(tag, lambda: w.client.connect(on_stop=on_stop, login=True))
                        w.drain()
                        if w.outcome(tag) is not None:
                            return
                        sock = w.net.sockets[-1]
                        w.io_connect(sock, 0)
                        w.drain()
                        if noise:
                            w._fed = 0
                            w.io_chunk(sock, w.noise_handshake_bytes())
                            w.drain()
                        w.io_chunk(sock, w.dframe(w.hello_resp()))
                        w.drain()
                        w.io_chunk(sock, w.dframe(w.connect_resp()))
                        w.drain()

                    connect("connect1")
                    if w.outcome("connect1") != "ok":
                        raise HarnessError(f"failing-callback: connect failed {w.results}")
                    sock = w.sock

                    def cb(state: Any) -> None:
                        raise exc_cls("application callback failed")

                    w.client.subscribe_states(cb)
                    if pending:
                        w.spawn("req", lambda: w.client.device_info())
                    w.drain()
                    w.io_chunk(sock, w.dframe(mk("SensorStateResponse", key=1, state=1.0)))
                    w.drain()
                    w.run_timers(w.loop.time() + 1.0)
                    n += 1
                    d = {"harness": "c19-failing-callback", "key": key}
                    if stops != [False]:
                        res.add(key, f"C19:wedged:a state callback raised {exc_name}; the transport is gone but the stop callback calls are {stops} (expected [False])", d)
                        continue
                    if pending:
                        r = w.results.get("req")
                        if r is None:
                            res.add(key, "C19:wedged:the request that was waiting when the session died is still waiting", d)
                            continue
                        if r[0] != "exc" or not isinstance(r[1], APIConnectionError):
                            res.add(key, f"C19:wrong-error:the waiting request ended {w.outcome('req')}, expected a connection error", d)
                            continue
                    try:
                        w.client.switch_command(1, True)
                        res.add(key, "C19:work-accepted:a command was accepted after the session had died", d)
                        continue
                    except APIConnectionError:
                        pass
                    except Exception as e:  # noqa: BLE001
                        res.add(key, f"C19:wrong-error:command after the session died raised {type(e).__name__}", d)
                        continue
                    if noise:
                        from .. import noise_ref
                        from ..world import seed_bytes

                        w.ndev = noise_ref.NoiseDevice(w.psk, seed_bytes("eph2"), name=w.device_name)
                    connect("connect2")
                    if w.outcome("connect2") != "ok":
                        res.add(key, f"C19:wedged:a fresh connect() after the session died ended {w.outcome('connect2')}: {w.results.get('connect2')}", d)
                finally:
                    w.close()
    return n


def late_session_runs(res: Result, only: str | None = None) -> int:
    """disconnect() is called while the connect is still waiting for the device's hello, gives up waiting after its 5 s and asks the device
    to disconnect; the slow device then answers the hello (the session comes up after all).  Whether or not the caller abandons that
    disconnect() call, the end of this session - by the device - is noticed: stop callback, refusal of work, a fresh connect accepted."""
    from aioesphomeapi.core import APIConnectionError

    from ..world import ConnWorld, mk

    n = 0
    for noise in (False, True):
        for abandon in (False, True):
            for ender in ("eof", "garbage", "silence"):
                key = f"late-session:{'noise' if noise else 'plain'}:{'disconnect-abandoned' if abandon else 'disconnect-waiting'}:{ender}"
                if only is not None and key != only:
                    continue
                w = ConnWorld(client=True, noise=noise, keepalive=10.0, login=True)
                stops: list[bool] = []
                try:
                    async def on_stop(expected: bool, _s: list[bool] = stops) -> None:
                        _s.append(bool(expected))

                    w.spawn("connect1", lambda: w.client.connect(on_stop=on_stop, login=True))
                    w.drain()
                    sock = w.net.sockets[-1]
                    w.io_connect(sock, 0)
                    w.drain()
                    if noise:
                        w.io_chunk(sock, w.noise_handshake_bytes())
                        w.drain()
                    w.spawn("disc", lambda: w.client.disconnect())
                    w.drain()
                    w.loop.advance_to(w.loop.time() + 5.0)  # DISCONNECT_CONNECT_TIMEOUT
                    w.drain()
                    if sock.closed:
                        continue
                    w.io_chunk(sock, w.dframe(w.hello_resp()) + w.dframe(w.connect_resp()))
                    w.drain()
                    if abandon:
                        w.cancel("disc")
                        w.drain()
                    c = w.client._connection
                    alive = c is not None and c.is_connected
                    n += 1
                    d = {"harness": "c19-late-session", "key": key}
                    if not alive:
                        continue  # the late hello did not bring a session up: nothing to end
                    if ender == "eof":
                        w.io_eof(sock)
                    elif ender == "garbage":
                        w.io_chunk(sock, b"\x7f\x7f\x7f" if not noise else b"\x00\x00\x01x")
                    w.drain()
                    w.run_timers(w.loop.time() + 8 * 10.0)
                    if len(stops) != 1:
                        res.add(key, f"C19:wedged:the session that came up late was ended by the device ({ender}); stop callback calls: {stops}", d)
                        continue
                    try:
                        w.client.switch_command(1, True)
                        res.add(key, "C19:work-accepted:a command was accepted after the late session had ended", d)
                        continue
                    except APIConnectionError:
                        pass
                    if noise:
                        from .. import noise_ref
                        from ..world import seed_bytes

                        w.ndev = noise_ref.NoiseDevice(w.psk, seed_bytes("eph2"), name=w.device_name)
                        w._fed = 0
                    w.spawn("connect2", lambda: w.client.connect(on_stop=on_stop, login=True))
                    w.drain()
                    r = w.results.get("connect2")
                    if r is not None and r[0] == "exc" and "Already connected" in str(r[1]):
                        res.add(key, "C19:wedged:a fresh connect() after the late session ended is refused with 'Already connected'", d)
                finally:
                    w.close()
    return n


def address_form_runs(res: Result, only: str | None = None) -> int:
    """Two consecutive sessions on one client for several ways of writing the device's address (the second attempt runs with a device
    name already known): every connect is accepted and completes; nothing about the address text can wedge the client."""
    from ..world import ConnWorld

    n = 0
    for addr in ("10.0.0.1", "fd00::17", "fe80::1%3", "2001:db8::1"):
        for name in ("dev", "living.room", ""):
            key = f"address-form:{addr}:{name or 'no-name'}"
            if only is not None and key != only:
                continue
            w = ConnWorld(client=True, keepalive=1e6, login=True, addresses=(addr,), device_name=name)
            try:
                for session in (1, 2, 3):
                    tag = f"connect{session}"
                    w.spawn(tag, lambda: w.client.connect(login=True))
                    w.drain()
                    if w.outcome(tag) is None and w.net.connecting():
                        sock = w.net.connecting()[0]
                        w.io_connect(sock, 0)
                        w.drain()
                        if w.outcome(tag) is None:
                            w.io_chunk(sock, w.dframe(w.hello_resp()) + w.dframe(w.connect_resp()))
                            w.drain()
                    n += 1
                    if w.outcome(tag) != "ok":
                        r = w.results.get(tag)
                        res.add(key, f"C19:wedged:session {session} to {addr!r} (device name {name!r}): connect() ended "
                                f"{w.outcome(tag) or 'never'}: {r[1] if r else ''}", {"harness": "c19-address", "key": key})
                        break
                    w.spawn(f"disc{session}", lambda: w.client.disconnect(force=True))
                    w.drain()
            finally:
                w.close()
    return n


def silent_device_runs(res: Result, only: str | None = None) -> int:
    """A device that dies without a word (the TCP connection stays open, no more bytes): after the keepalive has given up, the client must
    refuse work with a connection error and must accept - and complete - a fresh connect.  Histories with 0-3 answered pings before."""
    from aioesphomeapi.core import APIConnectionError

    from ..world import ConnWorld, mk

    K = 10.0
    n = 0
    for noise in (False, True):
        for answered in (0, 1, 2, 3):
            for answer_kind in ("pong", "state"):
                if answered == 0 and answer_kind == "state":
                    continue
                key = f"silent-device:{'noise' if noise else 'plain'}:{answered}-pings-answered-by-{answer_kind}"
                if only is not None and key != only:
                    continue
                w = ConnWorld(client=True, noise=noise, keepalive=K, login=True)
                stops: list[bool] = []
                try:
                    async def on_stop(expected: bool, _s: list[bool] = stops) -> None:
                        _s.append(bool(expected))

                    def connect(tag: str) -> None:
                        w.spawn(tag, lambda: w.client.connect(on_stop=on_stop, login=True))
                        w.drain()
                        if w.outcome(tag) is not None:
                            return
                        sock = w.net.sockets[-1]
                        w.io_connect(sock, 0)
                        w.drain()
                        if noise:
                            w._fed = 0
                            w.io_chunk(sock, w.noise_handshake_bytes())
                            w.drain()
                        w.io_chunk(sock, w.dframe(w.hello_resp()))
                        w.drain()
                        w.io_chunk(sock, w.dframe(w.connect_resp()))
                        w.drain()

                    connect("connect1")
                    if w.outcome("connect1") != "ok":
                        raise HarnessError(f"silent-device: connect failed {w.results}")
                    sock = w.sock
                    t = w.loop.time()
                    for _ in range(answered):
                        t += K
                        w.run_timers(t)
                        w.io_chunk(sock, w.dframe(mk("PingResponse") if answer_kind == "pong" else mk("SensorStateResponse", key=1, state=1.0)))
                        w.drain()
                        t += K
                        w.run_timers(t)
                    w.run_timers(t + 8 * K)
                    n += 1
                    d = {"harness": "c19-silent", "key": key}
                    if stops != [False]:
                        res.add(key, f"C19:wedged:the device went silent after {answered} answered pings; 8 keepalive intervals later the session has not "
                                f"been given up (stop callback calls {stops})", d)
                        continue
                    sent0 = len(sock.sent)
                    try:
                        w.client.switch_command(1, True)
                        res.add(key, "C19:work-accepted:a command was accepted after the session had been given up", d)
                        continue
                    except APIConnectionError:
                        pass
                    except Exception as e:  # noqa: BLE001
                        res.add(key, f"C19:wrong-error:command after the session was given up raised {type(e).__name__}", d)
                        continue
                    if len(sock.sent) != sent0:
                        res.add(key, "C19:work-written:the refused command still wrote bytes", d)
                        continue
                    if noise:
                        import base64 as _b64

                        from .. import noise_ref
                        from ..world import seed_bytes

                        w.ndev = noise_ref.NoiseDevice(w.psk, seed_bytes("eph2"), name=w.device_name)
                    connect("connect2")
                    if w.outcome("connect2") != "ok":
                        res.add(key, f"C19:wedged:a fresh connect() after the silent death ended {w.outcome('connect2')}: {w.results.get('connect2')}", d)
                finally:
                    w.close()
    return n


def run(tier: str, seed: int) -> Result:
    res = Result("C19", "model_checking")
    q = tier == "quick"
    total = Stats()
    budget = 150.0 if q else 2400.0
    t_end = time.monotonic() + budget
    per = []
    cfgs = [(sd, False) for sd in SEEDS] + [(sd, True) for sd in SEEDS if "hello" in sd and sd[-1] == "hello"] + [(("connect", "tcp_ok", "hello"), True)]
    # the application's stop callback is slow (still running while the next attempts are made)
    cfgs += [(("start", "tcp_ok", "finish", "hello"), "slow"), (("start", "tcp_ok", "finish", "hello", "eof"), "slow"), (("start", "tcp_ok", "finish", "hello", "DR", "start"), "slow")]
    for i, (sd, rec) in enumerate(cfgs):
        depth, bound = (4, 1) if q else (6, 2)
        slow = rec == "slow"
        rec = rec is True
        if rec:
            depth -= 1
        left = max(5.0, (t_end - time.monotonic()) / min(3, len(cfgs) - i))  # most configurations finish far below their share: a hungry one may take a third of what is left
        st = explore_parallel(factory, (sd, False, rec, slow), depth=depth, bound=bound, budget_s=left, split_depth=1)
        per.append({"seed": list(sd), "stop_callback_reconnects_immediately": rec, "stop_callback_slow": slow, "depth_after_seed": depth, "deviation_bound": bound, "executions": st.executions, "states": st.states,
                    "transitions": st.transitions, "time_capped": st.time_capped})
        for v in st.violations:
            clause = v["violated"][0]
            kind = ":".join(clause.split(":")[:3])[:70]
            res.add(kind, clause, {"harness": "c19", "seed": list(sd), "reconnect": rec, "slow_stop": slow, "choices": v["choices"], "violated": v["violated"],
                                   "observations": v["observations"]})
        total.merge(st)
    sweep = surface_sweep(res)
    sweep["silent_device_histories"] = silent_device_runs(res)
    sweep["failing_callback_histories"] = failing_callback_runs(res)
    sweep["late_session_histories"] = late_session_runs(res)
    sweep["address_form_sessions"] = address_form_runs(res)
    if sweep["surface_methods"] < 40:
        raise HarnessError(f"vacuous surface sweep: {sweep}")
    need = {"session", "refused", "accepted", "work-refused", "work-accepted", "start-failed", "finish-failed"}
    if not res.violations and not need <= set(total.tags):
        raise HarnessError(f"vacuous: tags {sorted(total.tags)}")
    res.coverage = {
        "states": total.states,
        "transitions": total.transitions,
        "traces_validated_against_impl": total.executions,
        "executions": total.executions,
        "distinct_outcomes": len(total.outcomes),
        "configs": per,
        **sweep,
        "every_execution_ends_with_probe": "disconnect() -> start_connection -> tcp ok -> finish_connection -> hello -> command",
        "exhaustive": not total.time_capped,
        "caps_hit": ["wall-clock budget"] if total.time_capped else [],
        "samples": total.samples[:3],
    }
    res.assumptions = [
        "an attempt is 'in progress' from the moment start_connection/finish_connection/connect was accepted until that call returned or raised; "
        "between a successful start_connection and the finish_connection call either answer to a further start is accepted, "
        "except after disconnect() returned, when it must be accepted",
        "a session is alive from the return of finish_connection/connect until the stop callback or the return of disconnect()",
        "commands while a finish/connect call is in flight and the device's hello has been delivered may be accepted or refused",
        "finish_connection is only issued legally (after a successful start_connection, nothing else in flight)",
        "a start/finish/connect issued in the wrong state is only required to raise and not to wedge the client",
    ]
    return res


def replay(rp: dict[str, Any]) -> bool:
    d = rp["detail"]
    if d.get("harness") == "c19-address":
        res = Result("C19", "model_checking")
        address_form_runs(res, only=d["key"])
        print(d["key"], "->", [v.clause for v in res.violations] or "holds")
        return not res.violations
    if d.get("harness") == "c19-late-session":
        res = Result("C19", "model_checking")
        late_session_runs(res, only=d["key"])
        print(d["key"], "->", [v.clause for v in res.violations] or "holds")
        return not res.violations
    if d.get("harness") == "c19-failing-callback":
        res = Result("C19", "model_checking")
        failing_callback_runs(res, only=d["key"])
        print(d["key"], "->", [v.clause for v in res.violations] or "holds")
        return not res.violations
    if d.get("harness") == "c19-silent":
        res = Result("C19", "model_checking")
        silent_device_runs(res, only=d["key"])
        print(d["key"], "->", [v.clause for v in res.violations] or "holds")
        return not res.violations
    if "stage" in d:
        res = Result("C19", "model_checking")
        surface_sweep(res)
        bad = [v for v in res.violations if v.key == rp["key"]]
        print(rp["key"], "->", "still violated" if bad else "holds")
        for v in bad:
            print(" ", v.clause)
        return not bad
    h = factory(tuple(d["seed"]), bool(d.get("c07")), bool(d.get("reconnect")), bool(d.get("slow_stop")))
    w = h.fresh()
    try:
        v: list[str] = []
        for lab in d["choices"]:
            h.apply(w, lab)
            v = h.verdict(w)
            if v:
                break
        else:
            v = h.finish(w)
        for line in w.log:
            print(line)
        print("violated:", v)
        return not v
    finally:
        h.close(w)
