"""C01 - plaintext stream reassembly is lossless and independent of TCP segmentation.

Three exhaustive enumerations per stream (see DESIGN.md §3 C01):
  1. all 2^(n-1) segmentations of short streams,
  2. all segmentations with <= 2 cuts (all pairs of cut positions from the cut set),
  3. state-merging induction: for every pair p < q of cut positions and every chunk type, the helper
     driven to "first p bytes in one call" and then given stream[p:q] must land in exactly the state
     (all slots) of "first q bytes in one call" and deliver exactly the frames ending in (p, q].
The oracle is mc/wire.py (independent framer).
"""

from __future__ import annotations

import itertools
import multiprocessing as mp
import os
from typing import Any

from .. import env, wire
from ..evidence import Result
from ..vloop import HarnessError, VLoop

CHUNK_TYPES = ("bytes", "bytearray", "memoryview", "memoryview-H", "memoryview-strided", "array-H")
# chunk kinds whose storage the caller owns and reuses: after data_received() returns the harness overwrites it
REUSED_TYPES = ("bytearray-reused", "memoryview-reused")


def scribble(chunk: Any) -> None:
    """What a caller does that recycles its receive buffer: overwrite the storage it handed in."""
    obj = chunk.obj if isinstance(chunk, memoryview) else chunk
    if isinstance(obj, bytearray):
        obj[:] = b"\xee" * len(obj)


def conv(b: bytes, kind: str) -> Any:
    """The same bytes presented as different bytes-like objects (len() need not be the byte count)."""
    if kind == "bytes":
        return b
    if kind in ("bytearray", "bytearray-reused"):
        return bytearray(b)
    if kind == "memoryview-reused":
        return memoryview(bytearray(b))
    if kind == "memoryview-H" and len(b) % 2 == 0 and b:
        return memoryview(bytes(b)).cast("H")  # itemsize 2: len() is half the byte count
    if kind == "array-H" and len(b) % 2 == 0 and b:
        import array

        a = array.array("H")
        a.frombytes(bytes(b))
        return a
    if kind == "memoryview-strided" and b:
        inter = bytearray(2 * len(b))
        inter[::2] = b
        inter[1::2] = b"\xee" * len(b)
        return memoryview(bytes(inter))[::2]  # non-contiguous view of exactly b
    return memoryview(bytes(b))


class Rec:
    """Stands in for the connection: the observation point of C01 is the process_packet call."""

    def __init__(self) -> None:
        self.got: list[tuple[Any, Any]] = []
        self.errors: list[Any] = []

        self.on_packet: Any = None  # called once from inside the first process_packet (an in-process peer that answers at once)

    def process_packet(self, t: Any, d: Any) -> None:
        self.got.append((t, d))
        if self.on_packet is not None:
            hook, self.on_packet = self.on_packet, None
            hook()

    def report_fatal_error(self, e: Any) -> None:
        self.errors.append(e)


_loop: VLoop | None = None


def _ensure_loop() -> None:
    global _loop
    if _loop is None:
        _loop = VLoop()
        _loop.install()


def new_helper() -> tuple[Any, Rec]:
    _ensure_loop()
    from aioesphomeapi._frame_helper.plain_text import APIPlaintextFrameHelper

    rec = Rec()
    h = APIPlaintextFrameHelper(connection=rec, client_info="x", log_name="x")  # type: ignore[arg-type]
    h.connection_made(_Transport())  # type: ignore[arg-type]  # asyncio never delivers data before connection_made
    return h, rec


class _Transport:
    def write(self, data: Any) -> None:
        pass

    def close(self) -> None:
        pass

    def is_closing(self) -> bool:
        return False


SKIP_SLOTS = {"_loop", "_connection", "_transport", "_writer", "ready_future", "_client_info", "_log_name"}


def helper_state(h: Any) -> tuple[Any, ...]:
    names: list[str] = []
    for k in type(h).__mro__:
        names.extend(getattr(k, "__slots__", ()) or ())
    if getattr(h, "__dict__", None):
        names.extend(h.__dict__.keys())
    out = []
    for n in sorted(set(names)):
        if n in SKIP_SLOTS or n == "__weakref__":
            continue
        v = getattr(h, n, "<unset>")
        if isinstance(v, (bytes, bytearray, memoryview)):
            v = bytes(v)
        out.append((n, v))
    return tuple(out)


def norm_state(st: tuple[Any, ...]) -> tuple[Any, ...]:
    """None and empty buffer are the same thing when no byte is buffered."""
    d = dict(st)
    if "_buffer" in d and "_buffer_len" in d:
        buf = d["_buffer"] or b""
        d["_buffer"] = buf[: d["_buffer_len"]] if isinstance(buf, bytes) else buf
    return tuple(sorted(d.items()))


def norm_got(got: list[tuple[Any, Any]]) -> list[tuple[Any, bytes]]:
    out = []
    for t, d in got:
        if type(t) is not int or not isinstance(d, (bytes, bytearray, memoryview)):
            out.append((("badtype", type(t).__name__, type(d).__name__), b""))
        else:
            out.append((t, bytes(d)))
    return out


def expected_between(ends: list[tuple[int, int, bytes]], p: int, q: int) -> list[tuple[int, bytes]]:
    return [(t, pl) for e, t, pl in ends if p < e <= q]


def feed_segments(stream: bytes, cuts: tuple[int, ...], kinds: tuple[str, ...]) -> str | None:
    """Feed stream cut at ``cuts``; check deliveries after every chunk.  Returns a violation or None."""
    ends = wire.frame_ends(stream)
    h, rec = new_helper()
    pos = 0
    bounds = list(cuts) + [len(stream)]
    for i, q in enumerate(bounds):
        before = len(rec.got)
        kind = kinds[i % len(kinds)]
        chunk = conv(stream[pos:q], kind)
        try:
            h.data_received(chunk)
        except Exception as e:  # noqa: BLE001
            return f"exception {type(e).__name__}: {e} at chunk [{pos}:{q}] ({kind})"
        if kind in REUSED_TYPES:
            # payloads already delivered are compared before the caller's buffer is recycled; retained bytes must survive it
            got = norm_got(rec.got[before:])
            scribble(chunk)
        got = norm_got(rec.got[before:])
        exp = expected_between(ends, pos, q)
        if got != exp:
            return f"chunk [{pos}:{q}] delivered {_short(got)} expected {_short(exp)}"
        pos = q
    if rec.errors:
        return f"fatal error reported: {rec.errors[0]!r}"
    return None


def _short(fr: list[tuple[Any, bytes]]) -> str:
    return str([(t, len(p), p[:6].hex()) for t, p in fr])


def cut_set(stream: bytes, full_below: int = 72) -> list[int]:
    n = len(stream)
    if n <= full_below:
        return list(range(1, n))
    s: set[int] = set()
    # header bytes and a band around every frame boundary
    pos = 0
    for e, t, pl in wire.frame_ends(stream):
        hdr_end = e - len(pl)
        for x in range(pos, hdr_end + 3):
            s.add(x)
        for x in range(e - 3, e + 3):
            s.add(x)
        pos = e
    for x in range(pos, n):  # the incomplete tail: every position
        if x - pos < 24 or n - x < 4:
            s.add(x)
    k = 1
    while k < n:
        s.add(k)
        s.add(k + 1)
        s.add(k - 1)
        k *= 2
    for x in range(0, n, max(8, n // 24)):
        s.add(x)
    return sorted(x for x in s if 0 < x < n)


def check_stream(args: tuple[bytes, str, int, int]) -> dict[str, Any]:
    stream, label, all_seg_max, max_cuts = args
    env.load()
    ends = wire.frame_ends(stream)
    n = len(stream)
    out: dict[str, Any] = {"label": label, "n": n, "evals": 0, "states": 0, "transitions": 0, "viol": None,
                           "behavioural": 0, "frames": len(ends)}

    def fail(msg: str, **kw: Any) -> dict[str, Any]:
        out["viol"] = {"msg": msg, "stream": stream.hex() if n <= 600 else stream[:600].hex() + "...", "label": label, **kw}
        return out

    # 0. whole stream in one call, each chunk type
    for kind in CHUNK_TYPES + REUSED_TYPES:
        out["evals"] += 1
        v = feed_segments(stream, (), (kind,))
        if v:
            return fail(v, cuts=[], kinds=[kind])
    # 0b. every single cut from the cut set with the caller recycling its (mutable) buffer after each call
    for kind in REUSED_TYPES:
        for c in cut_set(stream):
            out["evals"] += 1
            v = feed_segments(stream, (c,), (kind,))
            if v:
                return fail(v, cuts=[c], kinds=[kind])
    # 1. all segmentations of short streams
    if n <= all_seg_max:
        for mask in range(1 << (n - 1)):
            cuts = tuple(i + 1 for i in range(n - 1) if mask >> i & 1)
            out["evals"] += 1
            allk = CHUNK_TYPES + REUSED_TYPES
            rot = allk[mask % len(allk):] + allk[: mask % len(allk)]
            v = feed_segments(stream, cuts, rot)
            if v:
                return fail(v, cuts=list(cuts), kinds=list(rot))
    # 0c. re-entrancy: the peer lives in the same process and its next bytes arrive from *inside* the dispatch of the first frame
    #     (the connection answers a request, the loopback transport hands the reply straight back to data_received)
    if len(ends) >= 1:
        first_end = ends[0][0]
        for c in [x for x in cut_set(stream) if x >= first_end] + [n]:
            for c2 in sorted({c, min(n, c + 1), min(n, c + 3), n}):
                h, rec = new_helper()
                rest = stream[c:c2]
                rec.on_packet = (lambda hh=h, rr=rest: hh.data_received(rr)) if rest else None
                out["evals"] += 1
                try:
                    h.data_received(stream[:c])
                    if c2 < n:
                        h.data_received(stream[c2:])
                except Exception as e:  # noqa: BLE001
                    return fail(f"exception {type(e).__name__}: {e} with re-entrant delivery of [{c}:{c2}] from inside the first frame's dispatch",
                                cuts=[c, c2], kinds=["reentrant"])
                got = norm_got(rec.got)
                exp = expected_between(ends, -1, n)
                if got != exp or rec.errors:
                    return fail(f"re-entrant delivery of [{c}:{c2}] from inside the first frame's dispatch: delivered {_short(got)} expected {_short(exp)}"
                                + (f", fatal error {rec.errors[0]!r}" if rec.errors else ""), cuts=[c, c2], kinds=["reentrant"])
    cs = cut_set(stream)
    # 2. all segmentations with <= max_cuts cuts from the cut set (direct, no induction)
    for k in range(1, max_cuts + 1):
        if k >= 2 and len(cs) > 140:
            sub = cut_set(stream, full_below=0)
            sub = sub if len(sub) <= 140 else sub[:: max(1, len(sub) // 140)]
        else:
            sub = cs
        if k >= 3 and len(sub) > 48:
            continue
        for cuts in itertools.combinations(sub, k):
            out["evals"] += 1
            kk = ("memoryview", "memoryview-H", "bytes", "array-H", "bytearray-reused", "memoryview-strided", "bytearray", "memoryview-reused")
            v = feed_segments(stream, cuts, kk)
            if v:
                return fail(v, cuts=list(cuts), kinds=list(kk))
    # 3. state-merging induction over the cut set
    points = [0] + cs + [n]
    canon: dict[int, tuple[Any, list[Any]]] = {}
    for q in points:
        h, rec = new_helper()
        if q:
            try:
                h.data_received(stream[:q])
            except Exception as e:  # noqa: BLE001
                return fail(f"exception {type(e).__name__}: {e} feeding the first {q} bytes in one call", cuts=[q])
        canon[q] = (norm_state(helper_state(h)), norm_got(rec.got))
        exp = expected_between(ends, -1, q)
        if canon[q][1] != exp:
            return fail(f"one call with the first {q} bytes delivered {_short(canon[q][1])} expected {_short(exp)}", cuts=[q])
    out["states"] = len(points)
    for i, p in enumerate(points[:-1]):
        for q in points[i + 1 :]:
            for kind in CHUNK_TYPES:
                h, rec = new_helper()
                if p:
                    try:
                        h.data_received(stream[:p])
                    except Exception as e:  # noqa: BLE001
                        return fail(f"exception {type(e).__name__}: {e} feeding the first {p} bytes", cuts=[p])
                before = len(rec.got)
                try:
                    h.data_received(conv(stream[p:q], kind))
                except Exception as e:  # noqa: BLE001
                    return fail(f"exception {type(e).__name__}: {e} in step {p}->{q} ({kind})", cuts=[p, q], kinds=["bytes", kind])
                out["transitions"] += 1
                got = norm_got(rec.got[before:])
                exp = expected_between(ends, p, q)
                if got != exp:
                    return fail(f"step {p}->{q} ({kind}) delivered {_short(got)} expected {_short(exp)}", cuts=[p, q], kinds=["bytes", kind])
                st = norm_state(helper_state(h))
                if st != canon[q][0]:
                    # never ignore a differing field: compare the two states behaviourally
                    out["behavioural"] += 1
                    rest = stream[q:]
                    for mode in ("whole", "bytewise"):
                        h1, r1 = new_helper()
                        h2, r2 = new_helper()
                        try:
                            h1.data_received(stream[:p]) if p else None
                            h1.data_received(conv(stream[p:q], kind))
                            h2.data_received(stream[:q]) if q else None
                            b1, b2 = len(r1.got), len(r2.got)
                            pieces = [rest] if mode == "whole" else [rest[j : j + 1] for j in range(len(rest))]
                            for pc in pieces:
                                if pc:
                                    h1.data_received(pc)
                                    h2.data_received(pc)
                        except Exception as e:  # noqa: BLE001
                            return fail(f"exception {type(e).__name__}: {e} after step {p}->{q} ({kind}) while feeding the rest ({mode})",
                                        cuts=[p, q], kinds=["bytes", kind])
                        if norm_got(r1.got[b1:]) != norm_got(r2.got[b2:]):
                            return fail(
                                f"state after {p}->{q} ({kind}) differs from the one-call state and behaves differently ({mode})",
                                cuts=[p, q], kinds=["bytes", kind],
                            )
    return out


def burst_stream(n: int, t: int, ln: int) -> bytes:
    return b"".join(wire.encode_frame(t, bytes([(i + j) & 0xFF for j in range(ln)])) for i in range(n))


# frames per read: one recv() of the selector transport returns up to 256 KiB, and the shortest frame is 3 bytes
BURST_COUNTS = (2, 8, 64, 500, 990, 1010, 1500, 4096, 20000, 87381)


def check_burst(args: tuple[int, int, int]) -> dict[str, Any]:
    """Many complete frames in ONE read (a stalled event loop, a chatty device): every frame is still handed over in that call."""
    n, t, ln = args
    env.load()
    stream = burst_stream(n, t, ln)
    label = f"burst({n}x({t},{ln}))"
    out: dict[str, Any] = {"label": label, "n": len(stream), "evals": 0, "states": 0, "transitions": 0, "viol": None,
                           "behavioural": 0, "frames": n}
    flen = len(stream) // n
    for cuts in ((), (1,), (flen * (n // 2),), (flen * (n // 2) + 1,), (len(stream) - 1,), (flen, len(stream) - flen)):
        for kind in ("bytes", "memoryview", "bytearray-reused"):
            out["evals"] += 1
            v = feed_segments(stream, cuts, (kind,))
            if v:
                out["viol"] = {"msg": v[:400], "label": label, "burst": [n, t, ln], "cuts": list(cuts), "kinds": [kind]}
                return out
    return out


# ------------------------------------------------------------------------------------------------
def build_streams(tier: str, seed: int) -> list[tuple[bytes, str]]:
    import hashlib

    def filler(n: int, tag: str) -> bytes:
        out = b""
        i = 0
        while len(out) < n:
            out += hashlib.sha256(f"{seed}:{tag}:{i}".encode()).digest()
            i += 1
        return out[:n]

    streams: list[tuple[bytes, str]] = []
    small_types = (0, 1, 128, 16384)  # type 0 is a frame like any other for the framing layer (what it means is C12's business)
    small_lens = (0, 1, 3, 128)
    small = [(t, ln) for t in small_types for ln in small_lens]

    def enc(fr: list[tuple[int, int]], tag: str) -> bytes:
        return b"".join(wire.encode_frame(t, filler(ln, f"{tag}{i}")) for i, (t, ln) in enumerate(fr))

    def tails(base: bytes, tag: str, lbl: str) -> None:
        # optionally followed by every proper prefix of one more frame (types/lengths with long headers)
        for t, ln in ((300, 2), (16384, 130)):
            nxt = wire.encode_frame(t, filler(ln, tag + "t"))
            upto = len(nxt) if ln < 10 else 8
            for k in range(1, upto):
                streams.append((base + nxt[:k], f"{lbl}+tail({t},{ln})[:{k}]"))

    maxf = 2
    seqs: list[list[tuple[int, int]]] = [[f] for f in small]
    seqs += [[a, b] for a in small for b in small]
    if tier == "thorough":
        seqs += [[a, b, c] for a in small for b in small for c in small]
    else:
        # every 7th three-frame stream (rotated by the seed) in quick, all of them in thorough
        tri = [[a, b, c] for a in small for b in small for c in small]
        seqs += tri[seed % 7 :: 7]
    for i, fr in enumerate(seqs):
        b = enc(fr, f"s{i}")
        lbl = "frames" + str(fr)
        streams.append((b, lbl))
        if len(fr) <= 1 or (tier == "thorough" and len(fr) == 2 and i % 7 == 0):
            tails(b, f"s{i}", lbl)
    # tiny streams for the 2^(n-1) enumeration
    for fr in ([(1, 0)], [(1, 1)], [(128, 0), (1, 2)], [(1, 0), (1, 0), (1, 0)], [(300, 3), (1, 1)], [(16384, 2), (2, 0)],
               [(1, 0), (128, 4)], [(65535, 1), (1, 0), (3, 2)], [(0, 0), (1, 1)], [(1, 0), (0, 2), (3, 0)]):
        b = enc(fr, "tiny")
        streams.append((b, "tiny" + str(fr)))
        for k in range(1, 4):
            streams.append((b + wire.encode_frame(16384, b"abc")[:k], "tiny" + str(fr) + f"+tail[:{k}]"))
    # single big frames over the full alphabet
    big_types = (0, 1, 127, 128, 300, 16383, 16384, 65535, 2**21, 2**32)
    big_lens = (0, 1, 2, 127, 128, 129, 16383, 16384, 16385, 70000)
    for t in big_types:
        for ln in big_lens:
            if tier == "quick" and ln >= 16383 and t not in (1, 16384, 2**32):
                continue
            streams.append((wire.encode_frame(t, filler(ln, f"b{t}")), f"big({t},{ln})"))
    # two big frames back to back and a big frame followed by small ones
    streams.append((wire.encode_frame(5, filler(16384, "bb1")) + wire.encode_frame(128, filler(129, "bb2")), "big2"))
    streams.append((wire.encode_frame(16384, filler(300, "bb3")) + wire.encode_frame(1, b"") + wire.encode_frame(2, b"x"), "big+small"))
    if tier == "thorough":
        # non-minimal varints in length and type
        for extra_l, extra_t in ((1, 0), (0, 1), (2, 2)):
            for t, ln in ((1, 0), (128, 3), (16384, 128)):
                pl = filler(ln, "nm")
                fr = b"\x00" + wire.varint_nonminimal(ln, extra_l) + wire.varint_nonminimal(t, extra_t) + pl
                streams.append((fr + wire.encode_frame(1, b"z"), f"nonminimal({t},{ln},{extra_l},{extra_t})"))
    return streams


def run(tier: str, seed: int) -> Result:
    res = Result("C01", "model_checking")
    streams = build_streams(tier, seed)
    all_seg_max = 13 if tier == "quick" else 15
    max_cuts = 2 if tier == "quick" else 3
    jobs = [(s, lbl, all_seg_max, max_cuts) for s, lbl in streams]
    # biggest first for load balance
    jobs.sort(key=lambda j: -len(j[0]))
    ctx = mp.get_context("fork")
    with ctx.Pool(min(16, os.cpu_count() or 1)) as pool:
        outs = pool.map(check_stream, jobs, chunksize=1)
        bursts = [(n, t, ln) for n in BURST_COUNTS for t, ln in ((1, 0), (300, 5))]
        bouts = pool.map(check_burst, bursts, chunksize=1)
    outs = outs + bouts
    evals = sum(o["evals"] for o in outs)
    states = sum(o["states"] for o in outs)
    trans = sum(o["transitions"] for o in outs)
    nontrivial = len({o["label"] for o in outs if o["frames"] >= 1})
    for o in sorted(outs, key=lambda o: o["n"]):  # shortest counter-example first
        if o["viol"]:
            v = o["viol"]
            res.add(f"{v['label']}|{v['msg'][:80]}", "deliveries differ from the independent framer: " + v["msg"],
                    {"harness": "c01", **v})
    if len(res.violations) > 6:
        res.violations = res.violations[:6]
    if not res.violations:
        if states < 1000 or trans < 10000 or evals < 10000:
            raise HarnessError("vacuous: too few states/transitions/evaluations")
    res.coverage = {
        "states": states,
        "transitions": trans,
        "traces_validated_against_impl": evals,
        "evaluations": evals,
        "streams": len(streams) + len(bursts),
        "streams_with_complete_frames": nontrivial,
        "behavioural_fallbacks": sum(o["behavioural"] for o in outs),
        "longest_stream": max(o["n"] for o in outs),
        "all_segmentations_up_to_len": all_seg_max,
        "max_cuts_direct": max_cuts,
        "chunk_types": list(CHUNK_TYPES),
        "frames_per_single_read": list(BURST_COUNTS),
        "exhaustive": True,
        "samples": [
            {"stream": lbl, "len": len(s), "cut_set_size": len(cut_set(s))} for s, lbl in streams[:: max(1, len(streams) // 5)]
        ][:6],
        "rule": "states = (stream, prefix length) pairs reached in one call; transitions = (p -> q, chunk type) steps whose "
        "resulting helper state (all slots) and deliveries equal those of the one-call state",
    }
    res.assumptions = [
        "APIPlaintextFrameHelper has no state outside its slots (state-merging induction); direct enumerations 1-2 do not rely on this",
        "long streams use a band of cut positions (all header bytes, +-3 around frame boundaries, powers of two, a coarse grid)",
    ]
    return res


def replay(rp: dict[str, Any]) -> bool:
    d = rp["detail"]
    stream = burst_stream(*d["burst"]) if d.get("burst") else bytes.fromhex(d["stream"].rstrip("."))
    cuts = tuple(d.get("cuts", []))
    kinds = tuple(d.get("kinds") or ["bytes"])
    v = feed_segments(stream, cuts, kinds)
    print("stream", d["label"], "cuts", cuts, "kinds", kinds, "->", v)
    return v is None
