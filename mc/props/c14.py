"""C14 - models mirror the wire schema; conversion is total and value-preserving.

Three exhaustive enumerations over finite, explicitly constructed domains:

  1. structure: every model enum <-> wire enum (numbers, aliases, names) and every model class <->
     wire message (field-name sets), through a pairing table that is written down here and is
     independent of the library's own conversion tables (which are checked against it);
  2. values: for every paired wire message, every field set to every value of a per-type alphabet
     (one at a time on an empty and on a fully populated message, and all pairs of fields),
     serialised, parsed, converted with from_pb and compared with an expected value computed
     from the wire value alone; float32 grid over all 256 exponents x boundary mantissas;
  3. to_dict/from_dict round trip of every info/state/device-info/user-service value so produced.
"""

from __future__ import annotations

import dataclasses
import enum
import itertools
import math
import os
import re
import struct
from typing import Any
import uuid as uuidlib

from google.protobuf.descriptor import FieldDescriptor as FD

from .. import env, pbgen
from ..evidence import Result
from ..vloop import HarnessError

# ---------------------------------------------------------------------------------------------------
# independent pairing tables
# ---------------------------------------------------------------------------------------------------
# model enum -> wire enum (same name unless listed)
ENUM_RENAMED = {
    "LastResetType": "SensorLastResetType",
    "AlarmControlPanelCommand": "AlarmControlPanelStateCommand",
    "UserServiceArgType": "ServiceArgType",
    "VoiceAssistantEventType": "VoiceAssistantEvent",
    "VoiceAssistantTimerEventType": "VoiceAssistantTimerEvent",
}
# wire enums that have no APIIntEnum counterpart by design (bit flags are exposed as IntFlag classes)
WIRE_ENUM_NO_MODEL = {"VoiceAssistantSubscribeFlag"}

# wire message -> model class, beyond the naming conventions ListEntities<X>Response <-> <X>Info and
# <X>StateResponse <-> <X>State | <X>EntityState
HAND_PAIRS = {
    "DeviceInfoResponse": "DeviceInfo",
    "EventResponse": "Event",
    "HomeassistantServiceResponse": "HomeassistantServiceCall",
    "ListEntitiesServicesResponse": "UserService",
    "ListEntitiesServicesArgument": "UserServiceArg",
    "MediaPlayerSupportedFormat": "MediaPlayerSupportedFormat",
    "BluetoothDeviceConnectionResponse": "BluetoothDeviceConnection",
    "BluetoothDevicePairingResponse": "BluetoothDevicePairing",
    "BluetoothDeviceUnpairingResponse": "BluetoothDeviceUnpairing",
    "BluetoothDeviceClearCacheResponse": "BluetoothDeviceClearCache",
    "BluetoothGATTReadResponse": "BluetoothGATTRead",
    "BluetoothGATTDescriptor": "BluetoothGATTDescriptor",
    "BluetoothGATTCharacteristic": "BluetoothGATTCharacteristic",
    "BluetoothGATTService": "BluetoothGATTService",
    "BluetoothGATTGetServicesResponse": "BluetoothGATTServices",
    "BluetoothConnectionsFreeResponse": "BluetoothConnectionsFree",
    "BluetoothGATTErrorResponse": "BluetoothGATTError",
    "VoiceAssistantAudioSettings": "VoiceAssistantAudioSettings",
    "VoiceAssistantRequest": "VoiceAssistantCommand",
    "VoiceAssistantAudio": "VoiceAssistantAudioData",
    "VoiceAssistantAnnounceFinished": "VoiceAssistantAnnounceFinished",
    "VoiceAssistantWakeWord": "VoiceAssistantWakeWord",
    "VoiceAssistantConfigurationResponse": "VoiceAssistantConfigurationResponse",
    "VoiceAssistantConfigurationRequest": "VoiceAssistantConfigurationRequest",
    "VoiceAssistantSetConfiguration": "VoiceAssistantSetConfiguration",
}
# camera images are reassembled from chunks (C17); `done` is the chunk framing flag, not a model field
CAMERA_PAIR = ("CameraImageResponse", "CameraState", {"done"})

# single-precision fields that are presented rounded to 7 significant digits ("designated")
ROUNDED = {
    "CoverState": {"position", "tilt"},
    "LightInfo": {"min_mireds", "max_mireds"},
    "LightState": {"brightness", "color_brightness", "red", "green", "blue", "white", "color_temperature", "cold_white", "warm_white"},
    "ClimateInfo": {"visual_min_temperature", "visual_max_temperature", "visual_target_temperature_step", "visual_current_temperature_step"},
    "ClimateState": {"current_temperature", "target_temperature", "target_temperature_low", "target_temperature_high"},
    "NumberInfo": {"min_value", "max_value", "step"},
    "NumberState": {"state"},
    "ValveState": {"position"},
    "MediaPlayerEntityState": {"volume"},
}
UUID_CLASSES = {"BluetoothGATTDescriptor", "BluetoothGATTCharacteristic", "BluetoothGATTService"}


def camel_prefix(name: str) -> str:
    return re.sub(r"(?<=[a-z0-9])(?=[A-Z])|(?<=[A-Z])(?=[A-Z][a-z])", "_", name).upper() + "_"


def build_pairs(model: Any, pb: Any) -> dict[str, str]:
    msgs = pb.DESCRIPTOR.message_types_by_name
    pairs: dict[str, str] = {}
    for m in msgs:
        r = re.fullmatch(r"ListEntities(\w+)Response", m)
        if r and r.group(1) not in ("Done", "Services"):
            pairs[m] = r.group(1) + "Info"
            continue
        r = re.fullmatch(r"(\w+)StateResponse", m)
        if r:
            for cand in (r.group(1) + "State", r.group(1) + "EntityState"):
                if hasattr(model, cand) and dataclasses.is_dataclass(getattr(model, cand)):
                    # LockState / MediaPlayerState / AlarmControlPanelState are enums, the classes are *EntityState
                    pairs[m] = cand
                    break
    pairs.update(HAND_PAIRS)
    return pairs


# ---------------------------------------------------------------------------------------------------
# 1. structure
# ---------------------------------------------------------------------------------------------------
def check_enums(res: Result, counter: list[int]) -> dict[str, str]:
    from aioesphomeapi import model

    pf = env.proto()
    pb = env.pb()
    menums = {
        n: c
        for n, c in vars(model).items()
        if isinstance(c, type) and issubclass(c, enum.IntEnum) and c is not model.APIIntEnum and c.__module__ == model.__name__
    }
    pairing: dict[str, str] = {}
    for mname, cls in sorted(menums.items()):
        wname = ENUM_RENAMED.get(mname, mname)
        counter[0] += 1
        if wname not in pf.enums:
            res.add(f"enum:{mname}:unpaired", f"model enum {mname} has no wire enum {wname} in api.proto")
            continue
        pairing[mname] = wname
        wire = list(pf.enums[wname].values)  # [(name, number)]
        desc = [(v.name, v.number) for v in pb.DESCRIPTOR.enum_types_by_name[wname].values]
        if wire != desc:
            res.add(f"enum:{mname}:text-vs-desc", f"{wname}: api.proto text {wire} != compiled descriptors {desc}")
        members = {k: int(v) for k, v in cls.__members__.items()}  # includes aliases
        wire_nums = {n for _, n in wire}
        counter[0] += 1
        if set(members.values()) != wire_nums:
            res.add(
                f"enum:{mname}:numbers",
                f"{mname} has numeric values {sorted(set(members.values()))}, wire enum {wname} has {sorted(wire_nums)}",
            )
        by_val: dict[int, list[str]] = {}
        for k, v in members.items():
            by_val.setdefault(v, []).append(k)
        for v, ks in sorted(by_val.items()):
            counter[0] += 1
            if len(ks) > 1:
                res.add(f"enum:{mname}:alias:{'='.join(ks)}", f"{mname}: members {ks} share the value {v} (aliases)")
        # names: one prefix per enum, wire name == prefix + member name
        prefixes = set()
        wire_by_num = {n: nm for nm, n in wire}
        for k, v in members.items():
            counter[0] += 1
            wn = wire_by_num.get(v)
            if wn is None:
                continue
            if wn == k:
                prefixes.add("")
            elif wn.endswith("_" + k):
                prefixes.add(wn[: -len(k)])
            else:
                res.add(f"enum:{mname}:name:{k}", f"{mname}.{k} = {v} but the wire enum calls {v} {wn}")
        counter[0] += 1
        if len(prefixes) > 1:
            res.add(f"enum:{mname}:prefix", f"{mname}: member names strip different prefixes {sorted(prefixes)} from the wire names")
    for wname in pf.enums:
        counter[0] += 1
        if wname not in pairing.values() and wname not in WIRE_ENUM_NO_MODEL:
            res.add(f"enum:wire:{wname}:unexposed", f"wire enum {wname} has no model enum")
    return pairing


def check_classes(res: Result, counter: list[int]) -> dict[str, str]:
    from aioesphomeapi import model, model_conversions

    pf = env.proto()
    pb = env.pb()
    pairs = build_pairs(model, pb)
    for wname, mname in sorted(pairs.items()):
        counter[0] += 1
        cls = getattr(model, mname, None)
        if cls is None or not dataclasses.is_dataclass(cls):
            res.add(f"class:{mname}:missing", f"model class {mname} (for wire message {wname}) does not exist")
            continue
        mf = {f.name for f in dataclasses.fields(cls)}
        wf = {f.name for f in pf.messages[wname].fields}
        if mf != wf:
            res.add(f"class:{mname}:fields", f"{mname} vs {wname}: only in model {sorted(mf - wf)}, only on the wire {sorted(wf - mf)}")
    wname, mname, extra = CAMERA_PAIR
    counter[0] += 1
    mf = {f.name for f in dataclasses.fields(getattr(model, mname))}
    wf = {f.name for f in pf.messages[wname].fields} - extra
    if mf != wf:
        res.add(f"class:{mname}:fields", f"{mname} vs {wname}: only in model {sorted(mf - wf)}, only on the wire {sorted(wf - mf)}")
    # the library's own conversion tables against the independent pairing
    for tname in ("SUBSCRIBE_STATES_RESPONSE_TYPES", "LIST_ENTITIES_SERVICES_RESPONSE_TYPES"):
        table = getattr(model_conversions, tname)
        for k, v in table.items():
            counter[0] += 1
            want = pairs.get(k.__name__)
            if k.__name__ == "ListEntitiesServicesResponse":
                if v is not None:
                    res.add(f"table:{tname}:{k.__name__}", f"{tname}[{k.__name__}] is {v}, expected None (services are converted separately)")
                continue
            if want is None or v is not getattr(model, want, None):
                res.add(f"table:{tname}:{k.__name__}", f"{tname}[{k.__name__}] is {getattr(v, '__name__', v)}, the schema pairs it with {want}")
        want_keys = {
            m
            for m in pairs
            if (tname.startswith("SUBSCRIBE") and (m.endswith("StateResponse") or m == "EventResponse"))
            or (tname.startswith("LIST") and m.startswith("ListEntities") and m.endswith("Response"))
        }
        got_keys = {k.__name__ for k in table}
        counter[0] += 1
        if want_keys != got_keys:
            res.add(f"table:{tname}:keys", f"{tname}: missing {sorted(want_keys - got_keys)}, unexpected {sorted(got_keys - want_keys)}")
    return pairs


# ---------------------------------------------------------------------------------------------------
# 2. values
# ---------------------------------------------------------------------------------------------------
def f32(x: float) -> float:
    return struct.unpack("<f", struct.pack("<f", x))[0]


def f32_bits(b: int) -> float:
    return struct.unpack("<f", struct.pack("<I", b))[0]


def round7(v: float) -> float:
    if v == 0 or not math.isfinite(v):
        return v
    return float("%.7g" % v)


FLOAT_ALPHABET = [
    0.0, -0.0, float("inf"), float("-inf"), float("nan"), 0.1, -0.1, 1 / 3, 2 / 3, 0.7, 1.0, 1.5, 9.999999, 10.0, 99.99999, 100.0,
    123456.789, 1234567.0, 16777216.0, 8388607.5, 8388606.5, 0.001, 1e-10, 1.17549435e-38, 1e-45, 3.4028235e38, 255.0, 0.5, 0.05,
    21.3, 37.5, -273.15, 1e10, 65504.0, 2.5, 0.015625, 0.2, 0.3, 0.6, 153.0, 500.0, 6535.9477, -0.0001234,
]
MANT64 = sorted(
    {0, 1, 2, 3, 0x7FFFFF, 0x7FFFFE, 0x400000, 0x3FFFFF, 0x400001, 0x200000, 0x600000, 0x100000, 0x080000, 0x555555, 0x2AAAAA,
     0x4CCCCD, 0x4CCCCC, 0x19999A, 0x199999, 0x333333, 0x666666, 0x0CCCCD, 0x700000, 0x7F0000, 0x00FFFF, 0x010000}
    | {1 << k for k in range(23)} | {(1 << k) - 1 for k in range(2, 23)}
)


def float_grid(mants: list[int]) -> list[float]:
    out = []
    for sign in (0, 1):
        for e in range(256):
            for m in mants:
                out.append(f32_bits((sign << 31) | (e << 23) | m))
    return out


def alphabet(fd: Any) -> list[Any]:
    t = fd.type
    if t == FD.TYPE_BOOL:
        return [False, True]
    if t in pbgen.INT_TYPES:
        return [0, 1, -1, 2**31 - 1, -(2**31)]
    if t in pbgen.UINT_TYPES:
        return [0, 1, 2**31, 2**32 - 1]
    if t in pbgen.INT64_TYPES:
        return [0, -1, 2**63 - 1, -(2**63)]
    if t in pbgen.UINT64_TYPES:
        return [0, 1, 2**63, 2**64 - 1]
    if t == FD.TYPE_FLOAT:
        return [f32(x) for x in FLOAT_ALPHABET]
    if t == FD.TYPE_DOUBLE:
        return [0.0, 0.1, -1.5, 1e300, float("inf"), float("nan")]
    if t == FD.TYPE_STRING:
        return ["", "abc", "é\U0001f600 中\x00z"]
    if t == FD.TYPE_BYTES:
        return [b"", b"\x00\xff", bytes(range(256)) + b"tail"]
    if t == FD.TYPE_ENUM:
        nums = [v.number for v in fd.enum_type.values]
        undefined = next(i for i in range(0, 1000) if i not in nums)
        return nums + [undefined, 2**31 - 1, -1]
    raise HarnessError(f"no alphabet for field type {t} ({fd.full_name})")


def field_values(fd: Any, depth: int = 0) -> list[Any]:
    """Values for one field: scalars, or lists for repeated fields; messages handled by the caller."""
    if fd.type == FD.TYPE_MESSAGE:
        return []
    al = alphabet(fd)
    if not pbgen.is_repeated(fd):
        return al
    if fd.type == FD.TYPE_FLOAT:
        al = al[:12]
    return [[], [al[-1]], list(al), list(reversed(al)) + [al[0]]]


def set_field(msg: Any, fd: Any, val: Any) -> None:
    if pbgen.is_repeated(fd):
        del getattr(msg, fd.name)[:]
        getattr(msg, fd.name).extend(val)
    else:
        setattr(msg, fd.name, val)


def same(a: Any, b: Any) -> bool:
    """Equality that treats NaN as equal to NaN, distinguishes -0.0 from 0.0 and bool from int."""
    if isinstance(a, float) and isinstance(b, float):
        if a != a or b != b:
            return a != a and b != b
        return a == b and math.copysign(1, a) == math.copysign(1, b)
    if isinstance(a, (list, tuple)) and isinstance(b, (list, tuple)):
        return len(a) == len(b) and all(same(x, y) for x, y in zip(a, b))
    if isinstance(a, dict) and isinstance(b, dict):
        return a.keys() == b.keys() and all(same(a[k], b[k]) for k in a)
    if dataclasses.is_dataclass(a) and dataclasses.is_dataclass(b):
        if type(a) is not type(b):
            return False
        return all(same(getattr(a, f.name), getattr(b, f.name)) for f in dataclasses.fields(a))
    if isinstance(a, bool) != isinstance(b, bool):
        return False
    return bool(a == b)


class Oracle:
    def __init__(self, pairs: dict[str, str], enum_pairing: dict[str, str]) -> None:
        from aioesphomeapi import model

        self.model = model
        self.pairs = pairs
        self.wire_enum_to_model = {w: getattr(model, m) for m, w in enum_pairing.items()}

    def expected_scalar(self, mname: str, fd: Any, v: Any) -> Any:
        t = fd.type
        if t == FD.TYPE_ENUM:
            return v  # compared by check_enum_value
        if t == FD.TYPE_FLOAT and fd.name in ROUNDED.get(mname, ()):
            return round7(v)
        return v

    def diff(self, mname: str, obj: Any, msg: Any, path: str = "") -> list[str]:
        """Compare a converted model object with the wire message it came from."""
        out: list[str] = []
        cls = getattr(self.model, mname)
        if type(obj) is not cls:
            return [f"{path}: converted object is {type(obj).__name__}, expected {mname}"]
        for fd in msg.DESCRIPTOR.fields:
            if not hasattr(obj, fd.name):
                continue  # field-name sets are compared structurally elsewhere
            got = getattr(obj, fd.name)
            wv = getattr(msg, fd.name)
            p = f"{path}{mname}.{fd.name}"
            if fd.name == "uuid" and mname in UUID_CLASSES:
                want = str(uuidlib.UUID(int=(wv[0] << 64) | wv[1]))
                if got != want:
                    out.append(f"{p}: {got!r} != {want!r}")
                continue
            if fd.type == FD.TYPE_MESSAGE:
                sub = fd.message_type.name
                if sub == "HomeassistantServiceMap":
                    want_d: dict[str, str] = {}
                    for e in wv:
                        want_d[e.key] = e.value
                    if got != want_d:
                        out.append(f"{p}: {got!r} != {want_d!r}")
                    continue
                subm = self.pairs.get(sub)
                if subm is None:
                    continue
                if pbgen.is_repeated(fd):
                    if not isinstance(got, list) or len(got) != len(wv):
                        out.append(f"{p}: {len(got) if isinstance(got, list) else got!r} elements, wire has {len(wv)}")
                        continue
                    for i, (g, e) in enumerate(zip(got, wv)):
                        out += self.diff(subm, g, e, f"{p}[{i}].")
                else:
                    out += self.diff(subm, got, wv, f"{p}.")
                continue
            if fd.type == FD.TYPE_ENUM:
                defined = {v.number for v in fd.enum_type.values}
                mcls = self.wire_enum_to_model.get(fd.enum_type.name)
                if pbgen.is_repeated(fd):
                    want_l = [x for x in wv if x in defined]
                    if not isinstance(got, list) or [int(x) for x in got] != want_l:
                        out.append(f"{p}: {got!r} != defined numbers of {list(wv)} = {want_l}")
                    elif mcls is not None and any(type(x) is not mcls for x in got):
                        out.append(f"{p}: elements are not {mcls.__name__} members: {got!r}")
                else:
                    if wv in defined:
                        if got is None or int(got) != wv:
                            out.append(f"{p}: wire value {wv} converted to {got!r}")
                        elif mcls is not None and type(got) is not mcls:
                            out.append(f"{p}: {got!r} is not a {mcls.__name__} member")
                    elif got is not None:
                        out.append(f"{p}: undefined wire number {wv} converted to {got!r}, expected None")
                continue
            if pbgen.is_repeated(fd):
                want_v: Any = [self.expected_scalar(mname, fd, x) for x in wv]
                try:
                    got = list(got)  # the container type is not part of the value
                except TypeError:
                    out.append(f"{p}: {type(got).__name__} instead of a sequence")
                    continue
            else:
                want_v = self.expected_scalar(mname, fd, wv)
            if not same(got, want_v):
                out.append(f"{p}: {got!r} != {want_v!r} (wire value {wv!r})")
        return out


def convert(cls: Any, msg: Any) -> tuple[Any, str | None]:
    data = msg.SerializeToString()
    m2 = type(msg)()
    m2.ParseFromString(data)
    try:
        return cls.from_pb(m2), None
    except Exception as e:  # noqa: BLE001
        return None, f"{type(e).__name__}: {e}"


def prepare_uuid(msg: Any, hi: int = 0x0000180000001000, lo: int = 0x800000805F9B34FB) -> None:
    """A valid GATT structure carries a 128-bit UUID as exactly two 64-bit halves, at every nesting level."""
    for fd in msg.DESCRIPTOR.fields:
        if fd.name == "uuid" and pbgen.is_repeated(fd) and fd.type == FD.TYPE_UINT64:
            del msg.uuid[:]
            msg.uuid.extend([hi, lo])
        elif fd.type == FD.TYPE_MESSAGE:
            if pbgen.is_repeated(fd):
                for e in getattr(msg, fd.name):
                    prepare_uuid(e, hi, lo)
            elif msg.HasField(fd.name):
                prepare_uuid(getattr(msg, fd.name), hi, lo)


ROUNDTRIP_BASES = ("EntityInfo", "EntityState", "DeviceInfo", "UserService")


class ValueSweep:
    def __init__(self, res: Result, pairs: dict[str, str], enum_pairing: dict[str, str], tier: str) -> None:
        from aioesphomeapi import model

        self.res = res
        self.model = model
        self.pairs = pairs
        self.oracle = Oracle(pairs, enum_pairing)
        self.tier = tier
        self.conversions = 0
        self.roundtrips = 0
        self.nontrivial = 0
        self.samples: list[Any] = []
        self.rt_bases = tuple(getattr(model, b) for b in ROUNDTRIP_BASES)

    def one(self, wname: str, msg: Any, what: str) -> None:
        mname = self.pairs[wname]
        cls = getattr(self.model, mname)
        prepare_uuid(msg)
        obj, err = convert(cls, msg)
        self.conversions += 1
        if err is not None:
            self.res.add(f"convert:{mname}:{what}:raises", f"{mname}.from_pb raised {err} for {wname} with {what}",
                         {"message": wname, "bytes": msg.SerializeToString().hex(), "what": what})
            return
        m2 = type(msg)()
        m2.ParseFromString(msg.SerializeToString())
        d = self.oracle.diff(mname, obj, m2)
        if d:
            fld = d[0].split(":")[0]
            self.res.add(f"convert:{fld}", f"{wname} with {what}: {d[0]}", {"message": wname, "bytes": msg.SerializeToString().hex(), "diffs": d[:5]})
        if isinstance(obj, self.rt_bases):
            self.roundtrips += 1
            try:
                back = cls.from_dict(obj.to_dict())
            except Exception as e:  # noqa: BLE001
                self.res.add(f"roundtrip:{mname}:raises", f"{mname}.from_dict(to_dict(x)) raised {type(e).__name__}: {e} ({what})",
                             {"message": wname, "bytes": msg.SerializeToString().hex()})
                return
            if not same(back, obj):
                bad = [f.name for f in dataclasses.fields(obj) if not same(getattr(back, f.name), getattr(obj, f.name))]
                self.res.add(f"roundtrip:{mname}:{','.join(bad)}", f"{mname}.from_dict(to_dict(x)) != x in fields {bad} ({what})",
                             {"message": wname, "bytes": msg.SerializeToString().hex()})

    def sweep_message(self, wname: str) -> None:
        pb = env.pb()
        klass = getattr(pb, wname)
        fds = list(klass.DESCRIPTOR.fields)
        self.one(wname, klass(), "empty")
        full = pbgen.populate(klass())
        self.one(wname, full, "populated")
        scal = [fd for fd in fds if fd.type != FD.TYPE_MESSAGE and not (fd.name == "uuid" and self.pairs[wname] in UUID_CLASSES)]
        vals = {fd.name: field_values(fd) for fd in scal}
        # one at a time, on an empty and on a populated message
        for fd in scal:
            for i, v in enumerate(vals[fd.name]):
                for base, bname in ((klass(), "empty"), (full, "populated")):
                    m = klass()
                    m.CopyFrom(base)
                    set_field(m, fd, v)
                    self.nontrivial += 1
                    self.one(wname, m, f"{fd.name}#{i} on {bname}")
        # all pairs of fields x all value pairs (floats restricted to a short list inside pairs)
        def short(fd: Any) -> list[Any]:
            v = vals[fd.name]
            if fd.type == FD.TYPE_FLOAT and not pbgen.is_repeated(fd):
                return v[:8]
            return v

        for a, b in itertools.combinations(scal, 2):
            for va in short(a):
                for vb in short(b):
                    m = klass()
                    set_field(m, a, va)
                    set_field(m, b, vb)
                    self.one(wname, m, f"{a.name}+{b.name}")
        # uuid halves
        if self.pairs[wname] in UUID_CLASSES:
            for hi in (0, 1, 2**63, 2**64 - 1, 0x0000180000001000):
                for lo in (0, 1, 2**63, 2**64 - 1, 0x800000805F9B34FB):
                    m = pbgen.populate(klass())
                    prepare_uuid(m)
                    del m.uuid[:]
                    m.uuid.extend([hi, lo])
                    self.one(wname, m, f"uuid={hi:x}/{lo:x}")
        # nested / repeated messages: 0, 1, 3 elements, each populated differently
        for fd in fds:
            if fd.type != FD.TYPE_MESSAGE:
                continue
            counts = (0, 1, 3) if pbgen.is_repeated(fd) else (1,)
            for n in counts:
                m = klass()
                if pbgen.is_repeated(fd):
                    for k in range(n):
                        pbgen.populate(getattr(m, fd.name).add(), salt=k * 3)
                else:
                    pbgen.populate(getattr(m, fd.name), salt=5)
                self.one(wname, m, f"{fd.name} x{n}")
            # every scalar value inside the nested message
            sub = fd.message_type
            for sfd in sub.fields:
                if sfd.type == FD.TYPE_MESSAGE or sfd.name == "uuid":
                    continue
                for i, v in enumerate(field_values(sfd)):
                    m = klass()
                    tgt = getattr(m, fd.name).add() if pbgen.is_repeated(fd) else getattr(m, fd.name)
                    if not pbgen.is_repeated(fd):
                        tgt.SetInParent()
                    set_field(tgt, sfd, v)
                    self.one(wname, m, f"{fd.name}.{sfd.name}#{i}")

    def float_grid_sweep(self) -> int:
        """The float32 grid through every float field of every paired message (and the util function itself)."""
        pb = env.pb()
        from aioesphomeapi.util import fix_float_single_double_conversion as fix

        mants = MANT64 if self.tier == "quick" else sorted(set(MANT64) | {(i * 2053) & 0x7FFFFF for i in range(4096)})
        grid = float_grid(mants)
        n = 0
        for v in grid:
            n += 1
            try:
                got = fix(v)
            except Exception as e:  # noqa: BLE001
                self.res.add("float:fix:raises", f"fix_float_single_double_conversion({v!r}) raised {type(e).__name__}: {e}")
                continue
            if not same(got, round7(v)):
                self.res.add("float:fix:value", f"fix_float_single_double_conversion({v!r}) = {got!r}, 7 significant digits give {round7(v)!r}")
        # through from_pb: every float field (designated or not), one job per field on a process pool
        jobs = []
        for wname, mname in sorted(self.pairs.items()):
            klass = getattr(pb, wname)
            for fd in klass.DESCRIPTOR.fields:
                if fd.type == FD.TYPE_FLOAT and not pbgen.is_repeated(fd):
                    jobs.append((wname, mname, fd.name, fd.name in ROUNDED.get(mname, ()), self.tier))
        import multiprocessing as mp
        import os

        ctx = mp.get_context("fork")
        with ctx.Pool(min(16, os.cpu_count() or 1)) as pool:
            for cnt, viol in pool.map(_grid_field_job, jobs, chunksize=1):
                n += cnt
                for k, clause in viol:
                    self.res.add(k, clause)
        return n


def _grid_field_job(job: tuple[str, str, str, bool, str]) -> tuple[int, list[tuple[str, str]]]:
    wname, mname, fname, rounded, tier = job
    env.load()
    from aioesphomeapi import model

    pb = env.pb()
    klass = getattr(pb, wname)
    cls = getattr(model, mname)
    if tier == "quick":
        grid = float_grid(MANT64[::4])
    elif rounded:
        grid = float_grid(sorted(set(MANT64) | {(i * 2053) & 0x7FFFFF for i in range(4096)}))
    else:
        grid = float_grid(MANT64)
    m = klass()
    prepare_uuid(m)
    n = 0
    viol: list[tuple[str, str]] = []
    for v in grid:
        setattr(m, fname, v)
        n += 1
        try:
            obj = cls.from_pb(m)
        except Exception as e:  # noqa: BLE001
            viol.append((f"convert:{mname}.{fname}:grid:raises", f"{mname}.from_pb raised {type(e).__name__}: {e} for {fname}={v!r}"))
            break
        got = getattr(obj, fname)
        want = round7(v) if rounded else v
        if not same(got, want):
            viol.append((f"convert:{mname}.{fname}", f"{wname}.{fname}={v!r} converted to {got!r}, expected {want!r}"
                         + (" (7 significant digits)" if rounded else " (not a designated field: unchanged)")))
            break
    return n, viol


def check_ble_advertisement(res: Result, counter: list[int]) -> None:
    """BluetoothLEAdvertisement has a hand-written converter; enumerate its shapes."""
    from aioesphomeapi import model

    pb = env.pb()

    def conv_uuid(u: str) -> str:
        return f"0000{u[2:].lower()}-0000-1000-8000-00805f9b34fb" if len(u) < 8 else u.lower()

    names = [b"", b"dev", "café".encode(), b"\xff\xfebad"]
    uuids = [[], ["0xFE9F"], ["0xfe9f", "6E400001-B5A3-F393-E0A9-E50E24DCCA9E"]]
    datas = [[], [("0xFE9F", b"\x01\x02", False)], [("0x004C", b"\x10", False), ("0xABCD", b"", False)], [("0xFE9F", b"\x05\x06", True)],
             # the old encoding (legacy_data) with an empty first payload followed by non-empty ones, and a non-empty first one
             [("0x004C", b"", True), ("0xABCD", b"\x07\x08", True), ("0x1234", b"\x09", True)], [("0x004C", b"\x01", True), ("0xABCD", b"", True)],
             # the current encoding with an empty first payload (a company id and nothing else) - decided per list, not per advertisement
             [("0x004C", b"", False), ("0xABCD", b"\x01", False)]]
    for nm in names:
        for us in uuids:
            for sd in datas:
                for md in datas:
                    m = pb.BluetoothLEAdvertisementResponse(address=2**47 + 5, rssi=-70, address_type=1, name=nm)
                    m.service_uuids.extend(us)
                    for tgt, lst in ((m.service_data, sd), (m.manufacturer_data, md)):
                        for u, d, legacy in lst:
                            e = tgt.add()
                            e.uuid = u
                            if legacy:
                                e.legacy_data.extend(list(d))
                            else:
                                e.data = d
                    counter[0] += 1
                    m2 = pb.BluetoothLEAdvertisementResponse()
                    m2.ParseFromString(m.SerializeToString())
                    try:
                        adv = model.BluetoothLEAdvertisement.from_pb(m2)
                    except Exception as e:  # noqa: BLE001
                        res.add("convert:BluetoothLEAdvertisement:raises", f"from_pb raised {type(e).__name__}: {e}", {"bytes": m.SerializeToString().hex()})
                        continue
                    # a list whose first entry carries no data at all is read as the legacy encoding (documented fallback)
                    def payload(lst: list[tuple[str, bytes, bool]]) -> list[tuple[str, bytes]]:
                        if lst and not lst[0][2] and lst[0][1] == b"" :
                            return [(u, b"") for u, d, lg in lst]
                        if lst and lst[0][2]:
                            return [(u, d if lg else b"") for u, d, lg in lst]
                        return [(u, d if not lg else b"") for u, d, lg in lst]

                    want = {
                        "address": 2**47 + 5, "rssi": -70, "address_type": 1, "name": nm.decode("utf-8", errors="replace"),
                        "service_uuids": [conv_uuid(u) for u in us],
                        "service_data": {conv_uuid(u): d for u, d in payload(sd)},
                        "manufacturer_data": {int(u, 16): d for u, d in payload(md)},
                    }
                    for k, wv in want.items():
                        if getattr(adv, k) != wv:
                            res.add(f"convert:BluetoothLEAdvertisement.{k}", f"BluetoothLEAdvertisement.{k}: {getattr(adv, k)!r} != {wv!r}",
                                    {"bytes": m.SerializeToString().hex()})


def instantiate_defaults(res: Result) -> int:
    """An application may construct any model class (placeholders, defaults) before the first message arrives: do so for every
    dataclass of the module, base classes first, so that conversion cannot depend on which class was instantiated first."""
    from aioesphomeapi import model

    classes = [c for c in vars(model).values() if isinstance(c, type) and dataclasses.is_dataclass(c) and c.__module__ == model.__name__]
    classes.sort(key=lambda c: len(c.__mro__))
    n = 0
    for c in classes:
        req = [f for f in dataclasses.fields(c) if f.default is dataclasses.MISSING and f.default_factory is dataclasses.MISSING]
        if req:
            continue
        n += 1
        try:
            c()
        except Exception:  # noqa: BLE001
            pass  # default-constructibility is not part of the property (the GATT classes need a two-element uuid)
    return n


def run(tier: str, seed: int) -> Result:
    env.load()
    res = Result("C14", "exploration")
    counter = [0]
    counter[0] += instantiate_defaults(res)
    enum_pairing = check_enums(res, counter)
    pairs = check_classes(res, counter)
    structural = counter[0]
    sw = ValueSweep(res, pairs, enum_pairing, tier)
    for wname in sorted(pairs):
        sw.sweep_message(wname)
    grid_n = sw.float_grid_sweep()
    check_ble_advertisement(res, counter)
    if sw.conversions < 20000 or len(pairs) < 60 or len(enum_pairing) < 25:
        raise HarnessError(f"vacuous: conversions={sw.conversions} pairs={len(pairs)} enums={len(enum_pairing)}")
    res.coverage = {
        "evaluations": structural + sw.conversions + grid_n + (counter[0] - structural),
        "distinct_nontrivial": sw.nontrivial,
        "rule": "one evaluation = one structural comparison (enum numbers/aliases/names, class field sets, library table entry) or one "
        "serialise->parse->from_pb conversion compared field by field with the wire values (or one float32 grid point); "
        "distinct_nontrivial = (message, field, value) combinations with a non-default value set one at a time",
        "structural_comparisons": structural,
        "model_enums_paired": len(enum_pairing),
        "message_model_pairs": len(pairs) + 1,
        "conversions": sw.conversions,
        "roundtrips_to_dict_from_dict": sw.roundtrips,
        "float32_grid_points": grid_n,
        "float_mantissas_per_exponent": len(MANT64) if tier == "quick" else len(set(MANT64) | {(i * 2053) & 0x7FFFFF for i in range(4096)}),
        "ble_advertisement_shapes": counter[0] - structural,
        "exhaustive": True,
        "samples": [{"wire": w, "model": m} for w, m in list(sorted(pairs.items()))[:4]],
    }
    res.assumptions = [
        "pairing wire message <-> model class follows the naming convention plus the hand-written list in this module; "
        "the library's conversion tables are checked against it",
        "designated rounded float fields are the ones listed in ROUNDED (this module); every other float must pass unchanged",
        "7 significant digits is formulated as float('%.7g' % v)",
        "a GATT uuid field carries exactly two 64-bit halves (other lengths are not valid wire messages for this protocol)",
        "CameraState is produced by chunk reassembly (C17); CameraImageResponse.done is framing, not a model field",
        "bit-flag classes (IntFlag) are not enums exposed for a wire enum",
    ]
    return res


def replay(rp: dict[str, Any]) -> bool:
    r = run("quick", 0)
    bad = [v for v in r.violations if v.key == rp["key"]]
    print(rp["key"], "->", "still violated" if bad else "holds")
    for v in bad:
        print(" ", v.clause)
    return not bad
