"""C04 - encrypted transport fails closed with a specific error; no forged delivery.

Fault enumeration: every single-frame corruption of a recorded honest session (byte flips at every position, truncation at every
length, duplicate / drop / swap of every frame), every handshake-phase deviation, the framing mismatches and key strings.  The
oracle is a reference receiver (mc/noise_sess.reference_receive: own framing + own cipher state with its own nonce counter).
"""

from __future__ import annotations

import base64
import multiprocessing as mp
import os
from typing import Any

from .. import env, noise_ref, wire
from ..evidence import Result
from ..noise_sess import CLASS_OF, EXPECTED, Session, reference_receive
from ..vloop import HarnessError
from ..world import ConnWorld, mk, pframe, seed_bytes

APP = ("ST", "PR", "TX")
# how the (corrupted) stream is cut into chunks: frame layout = hello, handshake, HelloResponse, ConnectResponse, app...
SPLITS = {
    "one-chunk": lambda lens: None,
    "after-handshake": lambda lens: [sum(lens[:2])],  # the device answers the hello request it received: finish completes mid-chunk
    "three-chunks": lambda lens: [sum(lens[:2]), sum(lens[:4])],  # session fully up, a request pending, then the rest
    # the same, but the client has meanwhile asked for a graceful disconnect and is waiting for the device's answer
    "three-chunks-disconnecting": lambda lens: [sum(lens[:2]), sum(lens[:4])],
}
DISCONNECTING = [False]


# the loop is busy elsewhere for this long after the first chunk has arrived in the socket: it reads it in the very iteration in which
# the handshake deadline (30 s) becomes due - arrived data is processed before the timers of that iteration
STALL = [0.0]


def observe(s: Session, chunks: list[bytes], eof: bool = True) -> dict[str, Any]:
    """Deliver chunks (+EOF); return deliveries and how the pending operation ended."""
    w = s.w
    req_spawned = False
    for ci, ch in enumerate(chunks):
        if s.sock.closed:
            break
        if ci == 0 and STALL[0]:
            w.io_chunk(s.sock, ch)
            w.loop.advance_to(w.loop.time() + STALL[0])
            w.drain()
        else:
            s.deliver(ch)
        if not req_spawned and w.outcome("finish") == "ok" and w.conn.connection_state.name == "CONNECTED":
            # a pending request observes the error class of a failure that happens after the session is up
            req = mk("DeviceInfoRequest")
            rtype = getattr(env.pb(), "DeviceInfoResponse")
            w.spawn("req", lambda: w.conn.send_message_await_response(req, rtype, 50.0))
            w.drain()
            if DISCONNECTING[0]:
                w.spawn("disc", lambda: w.conn.disconnect())
                w.drain()
            req_spawned = True
    if eof and not s.sock.closed:
        w.io_eof(s.sock)
        w.drain()
    w.drain()
    w.run_timers(w.loop.time() + 100.0)
    fin = w.results.get("finish")
    req = w.results.get("req")
    return {
        "delivered": list(s.probe.calls),
        "finish": w.outcome("finish"),
        "req": w.outcome("req"),
        "finish_exc": fin[1] if fin and fin[0] == "exc" else None,
        "req_exc": req[1] if req and req[0] == "exc" else None,
        "closed": all(x.closed for x in w.net.sockets),
        "state": w.conn.connection_state.name,
        "stops": [e for _, e, _ in w.stops],
    }


def judge(s: Session, stream: bytes, split: Any, expected: str | None, check_deliveries: bool = True) -> str | None:
    """Run the (corrupted) stream against a fresh session and compare with the reference receiver."""
    from aioesphomeapi.core import APIConnectionError

    ids = env.proto_ids()
    honest_hs = s.frames[1][3:]
    ref = reference_receive(stream, s.rx_key, expected, honest_hs)
    cuts = [] if split is None else ([split] if isinstance(split, int) else list(split))
    bounds = [0] + [c for c in cuts if 0 < c < len(stream)] + [len(stream)]
    chunks = [stream[a:b] for a, b in zip(bounds, bounds[1:]) if b > a]
    o = observe(s, chunks)
    # (i) deliveries are a byte-exact prefix of what the device encrypted - exactly the reference's list
    exp_deliv = [(ids.get(t, f"?{t}"), pl) for t, pl, _e in ref["delivered"] if t in ids]
    if check_deliveries and o["delivered"] != exp_deliv:
        honest = s.plain
        is_prefix = o["delivered"] == honest[: len(o["delivered"])]
        return (f"delivered {[d[0] for d in o['delivered']]} ({'a prefix' if is_prefix else 'NOT a prefix'} of what the device sent), "
                f"reference receiver: {[d[0] for d in exp_deliv]}")
    # whichever operation was pending when the stream failed
    pend_exc = o["finish_exc"] if o["finish_exc"] is not None else o["req_exc"]
    if ref["failure"] is not None:
        if not o["closed"] or o["state"] != "CLOSED":
            return f"stream fails ({ref['failure']}) but the connection is {o['state']}, sockets closed: {o['closed']}"
        if pend_exc is None:
            if o["finish"] == "ok" and o["req"] is None:
                return None  # nothing was pending any more
            return f"stream fails ({ref['failure']}) but the pending operation ended finish={o['finish']} req={o['req']}"
        if not isinstance(pend_exc, APIConnectionError):
            return f"pending operation raised {type(pend_exc).__name__}, not a connection error"
        if ref["failure"] != "unconstrained":
            want = CLASS_OF[ref["failure"]]
            if type(pend_exc).__name__ != want:
                return f"first failing frame is a {ref['failure']} failure: expected {want}, pending operation got {type(pend_exc).__name__}"
            if ref["failure"] == "bad_name" and getattr(pend_exc, "received_name", None) != ref["received_name"]:
                return f"bad-name error carries {getattr(pend_exc, 'received_name', None)!r}, device announced {ref['received_name']!r}"
    else:
        # no complete failing frame (e.g. truncation, enlarged length): prefix rule + some connection error after the EOF
        if not o["closed"]:
            return "socket not closed after EOF"
        if pend_exc is not None and not isinstance(pend_exc, APIConnectionError):
            return f"pending operation raised {type(pend_exc).__name__}, not a connection error"
        if o["finish"] is None or (o["finish"] == "ok" and o["req"] is None):
            return f"operation still pending after EOF and 100 s: finish={o['finish']} req={o['req']}"
    return None


def corruptions(frames: list[bytes], tier: str) -> list[tuple[str, bytes]]:
    out: list[tuple[str, bytes]] = []
    stream = b"".join(frames)
    masks = (0x01, 0x80, 0xFF) if tier == "quick" else (0x01, 0x02, 0x04, 0x08, 0x10, 0x20, 0x40, 0x80, 0xFF)
    for i in range(len(stream)):
        for m in masks:
            b = bytearray(stream)
            b[i] ^= m
            out.append((f"flip@{i}^{m:#x}", bytes(b)))
    for ln in range(0, len(stream)):
        out.append((f"truncate@{ln}", stream[:ln]))
    for k in range(len(frames)):
        out.append((f"dup#{k}", b"".join(frames[: k + 1] + frames[k:])))
        out.append((f"drop#{k}", b"".join(frames[:k] + frames[k + 1 :])))
        if k + 1 < len(frames):
            out.append((f"swap#{k}", b"".join(frames[:k] + [frames[k + 1], frames[k]] + frames[k + 2 :])))
    # every wrong marker byte at every frame start
    pos = 0
    for k, f in enumerate(frames):
        for mk_ in (0x00, 0x02, 0x03, 0x7F, 0x80, 0xFF) if tier == "quick" else [x for x in range(256) if x != 1]:
            b = bytearray(stream)
            b[pos] = mk_
            out.append((f"marker#{k}={mk_:#x}", bytes(b)))
        pos += len(f)
    # marker wrong and the following two bytes announce more than will ever arrive
    out.append(("marker+hugelen", b"\x00\xff\xff" + stream[3:]))
    out.append(("plaintext-device-reply", wire.encode_frame(2, b"\x08\x01\x10\x0a") ))
    return out


def handshake_deviations(s_frames: list[bytes]) -> list[tuple[str, list[bytes]]]:
    hello, hs = s_frames[0], s_frames[1]
    rest = s_frames[2:]
    out: list[tuple[str, list[bytes]]] = []
    for sel in [x for x in range(256) if x != 1]:
        out.append((f"selector={sel:#x}", [noise_ref.outer(bytes([sel]) + hello[4:]), hs] + rest))
    out.append(("empty-hello", [noise_ref.outer(b""), hs] + rest))
    out.append(("error:Handshake MAC failure", [hello, noise_ref.outer(b"\x01Handshake MAC failure")] + rest))
    out.append(("error:other text", [hello, noise_ref.outer(b"\x01Bad handshake packet len")] + rest))
    out.append(("error:empty text", [hello, noise_ref.outer(b"\x01")] + rest))
    return out


def case_job(args: tuple[Any, ...]) -> dict[str, Any]:
    env.load()
    kind = args[0]
    DISCONNECTING[0] = False
    out: dict[str, Any] = {"evals": 0, "viol": [], "failing": 0, "classes": set()}

    def add(key: str, clause: str, **kw: Any) -> None:
        out["viol"].append({"key": key, "clause": clause, **kw})

    if kind == "corrupt":
        _, tier, part, parts, split_mode = args
        # the corruption list is derived from a template session; every case runs on a fresh session with fresh keys, so
        # it is re-derived per session from the *description* (position / frame index), not from the bytes
        tmpl = Session("equal", EXPECTED, APP)
        descs = [d for d, _ in corruptions(tmpl.frames, tier)]
        lens = [len(f) for f in tmpl.frames]
        tmpl.close()
        for idx, desc in enumerate(descs):
            if idx % parts != part:
                continue
            s = Session("equal", EXPECTED, APP)
            try:
                if [len(f) for f in s.frames] != lens:
                    raise HarnessError("session layout is not reproducible")
                stream = dict(corruptions(s.frames, tier))[desc] if False else _apply(desc, s.frames)
                split = None
                split = SPLITS[split_mode](lens)
                DISCONNECTING[0] = split_mode.endswith("disconnecting")
                out["evals"] += 1
                ref = reference_receive(stream, s.rx_key, EXPECTED, s.frames[1][3:])
                if ref["failure"]:
                    out["failing"] += 1
                    out["classes"].add(ref["failure"])
                v = judge(s, stream, split, EXPECTED)
                if v:
                    add(f"{desc}|{split_mode}|{v[:50]}", f"{desc} ({split_mode}): {v}", desc=desc, split_mode=split_mode)
                    if len(out["viol"]) > 3:
                        return out
            finally:
                s.close()
    elif kind == "handshake":
        s0 = Session("equal", EXPECTED, APP)
        n = len(handshake_deviations(s0.frames))
        s0.close()
        for i in range(n):
            for split_mode in ("one-chunk", "frame-by-frame", "one-chunk@deadline"):
                s = Session("equal", EXPECTED, APP)
                try:
                    desc, frames = handshake_deviations(s.frames)[i]
                    stream = b"".join(frames)
                    out["evals"] += 1
                    STALL[0] = 30.0 if split_mode.endswith("@deadline") else 0.0
                    try:
                        if split_mode != "frame-by-frame":
                            v = judge(s, stream, None, EXPECTED)
                        else:
                            v = judge(s, stream, len(frames[0]), EXPECTED)
                    finally:
                        STALL[0] = 0.0
                    ref = reference_receive(stream, s.rx_key, EXPECTED, s.frames[1][3:])
                    if ref["failure"]:
                        out["failing"] += 1
                        out["classes"].add(ref["failure"])
                    if v:
                        add(f"{desc}|{split_mode}", f"{desc} ({split_mode}): {v}", desc=desc, split_mode=split_mode)
                finally:
                    s.close()
    elif kind == "name":
        for nv in ("different", "different+mac", "empty", "case", "longer"):
            for split_mode in ("one-chunk", "after-hello", "one-chunk@deadline"):
                s = Session(nv, EXPECTED, APP)
                try:
                    stream = s.stream()
                    out["evals"] += 1
                    out["failing"] += 1
                    out["classes"].add("bad_name")
                    STALL[0] = 30.0 if split_mode.endswith("@deadline") else 0.0
                    try:
                        v = judge(s, stream, len(s.frames[0]) if split_mode == "after-hello" else None, EXPECTED)
                    finally:
                        STALL[0] = 0.0
                    if v:
                        add(f"name:{nv}|{split_mode}", f"announced name variant {nv} ({split_mode}): {v}", desc="name:" + nv, split_mode=split_mode)
                finally:
                    s.close()
        # the server hello's name is absent or right, the authenticated name in the HelloResponse is another one
        for nv in ("absent", "equal", "equal+mac"):
            for hn in ("otherdev", "MyDev"):
                for split_mode in ("answers-in-one-chunk", "frame-by-frame"):
                    s = Session(nv, EXPECTED, APP, hello_name=hn)
                    try:
                        stream = s.stream()
                        out["evals"] += 1
                        out["failing"] += 1
                        out["classes"].add("bad_name")
                        # the device answers the hello request only after it has received it: a chunk never spans that point
                        split: Any = s.barrier if split_mode == "answers-in-one-chunk" else sorted(set(s.ends()[:-1]) | {s.barrier})
                        # (the answers to hello and login are awaited together and judged when both are in: what shares their chunk
                        # reaches an observer registered on the raw connection - no client-level subscription can exist yet - so only
                        # the verdict is compared here: closed, bad-name error, carrying the authenticated name)
                        v = judge(s, stream, split, EXPECTED, check_deliveries=False)
                        if v:
                            add(f"hello-name:{nv}:{hn}|{split_mode}", f"server hello name {nv}, HelloResponse name {hn!r} ({split_mode}): {v}",
                                desc=f"hello-name:{nv}:{hn}", split_mode=split_mode)
                    finally:
                        s.close()
    elif kind == "wrong-psk":
        for split_mode in ("one-chunk", "frame-by-frame"):
            s = Session("equal", EXPECTED, APP, device_psk=seed_bytes("another-psk"))
            try:
                # the responder cannot authenticate the client's handshake: a conformant device answers with the MAC-failure error frame
                assert s.w.ndev is not None
                stream = s.frames[0] + noise_ref.outer(b"\x01Handshake MAC failure")
                out["evals"] += 1
                out["failing"] += 1
                out["classes"].add("invalid_key")
                if s.w.ndev.handshake_error is None:
                    add("wrong-psk:responder", "reference responder accepted a client handshake made with a different key", desc="wrong-psk", split_mode=split_mode)
                v = judge(s, stream, None if split_mode == "one-chunk" else len(s.frames[0]), EXPECTED)
                if v:
                    add(f"wrong-psk|{split_mode}", f"device holds a different key ({split_mode}): {v}", desc="wrong-psk", split_mode=split_mode)
            finally:
                s.close()
    elif kind == "framing":
        from aioesphomeapi.core import HandshakeAPIError, ProtocolAPIError, RequiresEncryptionAPIError

        # plaintext client <- Noise device
        for first in (b"\x01\x00\x00", b"\x01", b"\x01\x00\x05\x01dev\x00"):
            w = ConnWorld(noise=False)
            try:
                w.do_start(); w.do_tcp_ok(); w.do_finish_call()
                w.io_chunk(w.sock, first)
                w.drain()
                w.io_eof(w.sock) if not w.sock.closed else None
                w.drain()
                out["evals"] += 1
                out["failing"] += 1
                out["classes"].add("requires_encryption")
                r = w.results.get("finish")
                if not r or not isinstance(r[1], RequiresEncryptionAPIError):
                    add(f"framing:plain<-noise:{first.hex()}", f"plaintext client received {first.hex()}: finish ended {w.outcome('finish')}, expected requires-encryption",
                        desc="plain<-noise")
                elif not all(x.closed for x in w.net.sockets):
                    add(f"framing:plain<-noise:{first.hex()}:open", "socket left open", desc="plain<-noise")
            finally:
                w.close()
        # Noise client <- plaintext device / immediate reset
        for label, first in (("plaintext-hello", pframe(mk("HelloResponse", api_version_major=1, api_version_minor=10))), ("zero", b"\x00\x00\x00")):
            w = ConnWorld(noise=True)
            try:
                w.do_start(); w.do_tcp_ok(); w.do_finish_call()
                w.io_chunk(w.sock, first)
                w.drain()
                out["evals"] += 1
                out["failing"] += 1
                out["classes"].add("protocol")
                r = w.results.get("finish")
                if not r or not isinstance(r[1], ProtocolAPIError):
                    add(f"framing:noise<-plain:{label}", f"Noise client received a plaintext frame: finish ended {w.outcome('finish')}, expected a protocol error", desc="noise<-plain")
            finally:
                w.close()
        w = ConnWorld(noise=True)
        try:
            w.do_start(); w.do_tcp_ok(); w.do_finish_call()
            w.io_rst(w.sock)
            w.drain()
            out["evals"] += 1
            out["failing"] += 1
            out["classes"].add("handshake")
            r = w.results.get("finish")
            if not r or not isinstance(r[1], HandshakeAPIError):
                add("framing:noise<-rst", f"Noise client reset right after its hello: finish ended {w.outcome('finish')}, expected a handshake error", desc="noise<-rst")
        finally:
            w.close()
    elif kind == "keys":
        from aioesphomeapi.connection import APIConnection, ConnectionParams
        from aioesphomeapi.core import InvalidEncryptionKeyAPIError
        from aioesphomeapi.zeroconf import ZeroconfManager

        keys: list[tuple[str, str, bool]] = []
        for n in range(0, 65):
            keys.append((f"b64({n} bytes)", base64.b64encode(bytes(range(n))).decode(), n == 32))
        keys += [("not-base64", "!!!! not base64 !!!!", False), ("wrong-padding", "QUJD=", False), ("bad-length-1", "A", False),
                 ("31-bytes-unpadded", base64.b64encode(bytes(31)).decode().rstrip("="), False),
                 ("urlsafe-32", base64.urlsafe_b64encode(b"\xff" * 32).decode(), None)]
        good = base64.b64encode(bytes(range(32))).decode()
        keys += [("one-space", " ", False), ("newline", "\n", False), ("whitespace", " \t\r\n", False),
                 ("valid+nbsp", good + "\u00a0", False), ("valid+accent", good[:-1] + "\u00e9", False), ("non-ascii-only", "\u00e4\u00f6\u00fc", False),
                 ("valid+nul", good + "\x00", None), ("valid+newline", good + "\n", None)]
        # every key string is tried three times in the same process (a retrying client): the verdict may not depend on history
        for label, key, valid in [k for k in keys for _ in range(3)]:
            w = ConnWorld(noise=True)
            try:
                w.params.noise_psk = key
                w.conn = APIConnection(w.params, w._on_stop, False, None)
                w.do_start(); w.do_tcp_ok(); w.do_finish_call()
                w.drain()
                out["evals"] += 1
                r = w.results.get("finish")
                sent = b"".join(x.sent_bytes() for x in w.net.sockets)
                if valid is None:
                    continue  # ignorable junk / alternative alphabets are not asserted
                if valid:
                    if r is not None:
                        add(f"key:{label}", f"valid key rejected: {w.outcome('finish')}", desc="key:" + label)
                    elif not sent:
                        add(f"key:{label}:nohello", "valid key but no client hello written", desc="key:" + label)
                else:
                    out["failing"] += 1
                    out["classes"].add("invalid_key")
                    if r is None or not isinstance(r[1], InvalidEncryptionKeyAPIError):
                        add(f"key:{label}", f"key string {label} must be rejected as an invalid encryption key, finish ended {w.outcome('finish')}", desc="key:" + label)
                    elif sent:
                        add(f"key:{label}:sent", f"{len(sent)} bytes were written before the key was rejected", desc="key:" + label)
            finally:
                w.close()
        # the same key strings handed to an APIClient (what an application does): same verdict, nothing written - in particular no
        # fallback to an unencrypted session
        from aioesphomeapi.core import APIConnectionError

        for label, key, valid in keys:
            if valid is None or key == "":
                continue  # an empty string given to the client means "no key configured" (documented: plaintext)
            w = ConnWorld(client=True, noise=True, noise_psk_text=key, login=False)
            try:
                w.spawn("connect", lambda: w.client.connect(login=False))
                w.drain()
                if w.net.connecting():
                    w.io_connect(w.net.connecting()[0], 0)
                    w.drain()
                out["evals"] += 1
                r = w.results.get("connect")
                sent = b"".join(x.sent_bytes() for x in w.net.sockets)
                if valid:
                    if r is not None:
                        add(f"client-key:{label}", f"valid key given to the client was rejected: {w.outcome('connect')}", desc="key:" + label)
                    elif not sent or sent[:1] != b"\x01":
                        add(f"client-key:{label}:nohello", f"valid key given to the client, but the first bytes written are {sent[:3]!r} (not a Noise hello)", desc="key:" + label)
                else:
                    out["failing"] += 1
                    if r is None or not isinstance(r[1], InvalidEncryptionKeyAPIError):
                        add(f"client-key:{label}", f"key string {label} given to the client must be rejected as an invalid encryption key; connect "
                            f"{'is still running' if r is None else 'ended ' + str(w.outcome('connect'))}, {len(sent)} bytes written ({sent[:4]!r}...)", desc="key:" + label)
                    elif sent:
                        add(f"client-key:{label}:sent", f"{len(sent)} bytes were written before the key was rejected", desc="key:" + label)
            finally:
                w.close()
        del APIConnectionError
    out["classes"] = sorted(out["classes"])
    return out


def _apply(desc: str, frames: list[bytes]) -> bytes:
    stream = b"".join(frames)
    if desc.startswith("flip@"):
        pos, m = desc[5:].split("^")
        b = bytearray(stream)
        b[int(pos)] ^= int(m, 16)
        return bytes(b)
    if desc.startswith("truncate@"):
        return stream[: int(desc[9:])]
    if desc.startswith("dup#"):
        k = int(desc[4:])
        return b"".join(frames[: k + 1] + frames[k:])
    if desc.startswith("drop#"):
        k = int(desc[5:])
        return b"".join(frames[:k] + frames[k + 1 :])
    if desc.startswith("swap#"):
        k = int(desc[5:])
        return b"".join(frames[:k] + [frames[k + 1], frames[k]] + frames[k + 2 :])
    if desc.startswith("marker#"):
        k, v = desc[7:].split("=")
        pos = sum(len(f) for f in frames[: int(k)])
        b = bytearray(stream)
        b[pos] = int(v, 16)
        return bytes(b)
    if desc == "marker+hugelen":
        return b"\x00\xff\xff" + stream[3:]
    if desc == "plaintext-device-reply":
        return wire.encode_frame(2, b"\x08\x01\x10\x0a")
    raise HarnessError(desc)


def run(tier: str, seed: int) -> Result:
    env.load()
    res = Result("C04", "fault_enumeration")
    parts = 32
    jobs: list[tuple[Any, ...]] = []
    for sm in ("one-chunk", "after-handshake", "three-chunks", "three-chunks-disconnecting"):
        jobs += [("corrupt", tier, p, parts, sm) for p in range(parts)]
    jobs += [("handshake",), ("name",), ("wrong-psk",), ("framing",), ("keys",)]
    ctx = mp.get_context("fork")
    with ctx.Pool(min(16, os.cpu_count() or 1)) as pool:
        outs = pool.map(case_job, jobs, chunksize=1)
    evals = sum(o["evals"] for o in outs)
    failing = sum(o["failing"] for o in outs)
    classes = sorted({c for o in outs for c in o["classes"]})
    for o in outs:
        for v in o["viol"]:
            res.add(v["key"], v["clause"], {"harness": "c04", **{k: x for k, x in v.items() if k not in ("key", "clause")}})
    need = {"protocol", "handshake", "invalid_key", "bad_name", "requires_encryption"}
    if not res.violations and (evals < 2000 or not need <= set(classes)):
        raise HarnessError(f"vacuous: evals={evals} classes={classes}")
    res.coverage = {
        "evaluations": evals,
        "distinct_nontrivial": failing,
        "rule": "one evaluation = one fresh session (fresh keys) fed one deviating server stream, delivered in one chunk and split after "
        "the login; non-trivial = streams in which the reference receiver finds a complete failing frame (error class asserted)",
        "failure_classes_exercised": classes,
        "session_frames": ["hello", "handshake", "HelloResponse", "ConnectResponse", "SensorState", "PingRequest", "TextSensorState"],
        "exhaustive": True,
        "samples": [{"corruption": "flip@57^0x80", "delivery": "one-chunk"}, {"corruption": "swap#4", "delivery": "after-login"},
                    {"handshake": "selector=0x2"}, {"key": "b64(31 bytes)"}],
    }
    res.assumptions = [
        "a modified AEAD frame does not verify (2^-128)",
        "deviations that leave no complete failing frame (enlarged length, truncation) must satisfy the prefix rule and end with some connection error",
        "base64 strings with ignorable junk / other alphabets are not asserted",
    ]
    return res


def replay(rp: dict[str, Any]) -> bool:
    env.load()
    d = rp["detail"]
    print(rp["key"], "|", rp["violated"])
    desc = d.get("desc", "")
    if desc.split("@")[0].split("#")[0] in ("flip", "truncate", "dup", "drop", "swap", "marker") or desc in ("marker+hugelen", "plaintext-device-reply"):
        s = Session("equal", EXPECTED, APP)
        try:
            lens = [len(f) for f in s.frames]
            split = SPLITS[d["split_mode"]](lens)
            DISCONNECTING[0] = d["split_mode"].endswith("disconnecting")
            v = judge(s, _apply(desc, s.frames), split, EXPECTED)
        finally:
            s.close()
        print("->", v)
        return v is None
    kind = "handshake" if desc.startswith(("selector", "empty-hello", "error:")) else \
        "name" if desc.startswith("name:") else "wrong-psk" if desc == "wrong-psk" else "keys" if desc.startswith("key:") else "framing"
    o = case_job((kind,))
    print("->", o["viol"])
    return not o["viol"]
