"""C15 - commands carry exactly the arguments the caller supplied.

Every command method of APIClient x every assignment of {omitted, falsy, typical} to its optional
arguments (3^k) x extreme values one at a time x negotiated API versions around the legacy
thresholds is called on a connected simulated session; the single frame written is decoded with the
independent plaintext codec and compared, as a whole message, with the request built from a spec
table written by hand from api.proto plus one rule read from the descriptors: a field that has a
``has_<field>`` companion carries it true iff the caller supplied the argument.
"""

from __future__ import annotations

import itertools
import multiprocessing as mp
import os
from typing import Any, Callable

from .. import env, pbgen, wire
from ..evidence import Result
from ..vloop import HarnessError
from ..world import ConnWorld

OMIT = object()
VERSIONS = [(1, 0), (1, 1), (1, 2), (1, 3), (1, 4), (1, 5), (1, 10), (2, 0), (2, 2), (2, 4)]
KEYS = [0, 1, 0x12345678, 2**32 - 1]


class Arg:
    """One optional argument: values to try and how it appears in the request."""

    def __init__(self, name: str, falsy: Any, typical: Any, extremes: tuple[Any, ...] = (), *, field: str | None = None,
                 components: tuple[str, ...] | None = None, ms: bool = False, flag: bool = False) -> None:
        self.name = name
        self.falsy = falsy
        self.typical = typical
        self.extremes = extremes
        self.field = field or name
        self.components = components
        self.ms = ms
        self.flag = flag  # plain bool parameter with a default (no None): field = bool(value), no presence flag


def specs() -> dict[str, dict[str, Any]]:
    from aioesphomeapi import model as m

    fl = (1.0, -1.0, 1e-3, 100.0, 0.3)
    return {
        "cover_command": {
            "msg": "CoverCommandRequest",
            "opt": [Arg("position", 0.0, 0.5, (1.0, 0.25)), Arg("tilt", 0.0, 0.5, (1.0,)), Arg("stop", False, True, flag=True)],
        },
        "fan_command": {
            "msg": "FanCommandRequest",
            "opt": [Arg("state", False, True), Arg("speed", m.FanSpeed.LOW, m.FanSpeed.HIGH, (m.FanSpeed.MEDIUM,)),
                    Arg("speed_level", 0, 3, (100, 2**31 - 1)), Arg("oscillating", False, True),
                    Arg("direction", m.FanDirection.FORWARD, m.FanDirection.REVERSE), Arg("preset_mode", "", "auto", ("é\U0001f600", LONG))],
        },
        "light_command": {
            "msg": "LightCommandRequest",
            "opt": [Arg("state", False, True), Arg("brightness", 0.0, 0.5, fl), Arg("color_mode", 0, 35, (1, 2**31 - 1)),
                    Arg("color_brightness", 0.0, 0.6, fl), Arg("rgb", (0.0, 0.0, 0.0), (0.1, 0.2, 0.3), ((1.0, 0.0, 0.5), (0.0, 1.0, 0.0)),
                                                            components=("red", "green", "blue")),
                    Arg("white", 0.0, 0.7, fl), Arg("color_temperature", 0.0, 250.0, (153.0, 500.0)), Arg("cold_white", 0.0, 0.8, fl),
                    Arg("warm_white", 0.0, 0.9, fl), Arg("transition_length", 0.0, 1.5, (0.001, 0.0004, 0.0016, 2.5, 60.0, 4294967.0, 0.25), ms=True),
                    Arg("flash_length", 0.0, 2.0, (0.001, 0.0004, 0.0016, 10.0, 0.75), ms=True), Arg("effect", "", "rainbow", ("None", "é", LONG, HUGE))],
        },
        "climate_command": {
            "msg": "ClimateCommandRequest",
            "opt": [Arg("mode", m.ClimateMode.OFF, m.ClimateMode.HEAT, (m.ClimateMode.AUTO,)), Arg("target_temperature", 0.0, 21.5, (-5.0, 30.0)),
                    Arg("target_temperature_low", 0.0, 18.0, (-5.0,)), Arg("target_temperature_high", 0.0, 24.0, (35.0,)),
                    Arg("fan_mode", m.ClimateFanMode.ON, m.ClimateFanMode.HIGH, (m.ClimateFanMode.QUIET,)),
                    Arg("swing_mode", m.ClimateSwingMode.OFF, m.ClimateSwingMode.BOTH, (m.ClimateSwingMode.HORIZONTAL,)),
                    Arg("custom_fan_mode", "", "turbo"), Arg("preset", m.ClimatePreset.NONE, m.ClimatePreset.AWAY,
                                                               (m.ClimatePreset.HOME, m.ClimatePreset.ECO, m.ClimatePreset.ACTIVITY)),
                    Arg("custom_preset", "", "party"), Arg("target_humidity", 0.0, 45.0, (100.0,))],
        },
        "siren_command": {
            "msg": "SirenCommandRequest",
            "opt": [Arg("state", False, True), Arg("tone", "", "beep", ("é",)), Arg("volume", 0.0, 0.5, (1.0,)), Arg("duration", 0, 30, (2**32 - 1,))],
        },
        "valve_command": {"msg": "ValveCommandRequest", "opt": [Arg("position", 0.0, 0.5, (1.0,)), Arg("stop", False, True, flag=True)]},
        "media_player_command": {
            "msg": "MediaPlayerCommandRequest",
            "opt": [Arg("command", m.MediaPlayerCommand.PLAY, m.MediaPlayerCommand.STOP, (m.MediaPlayerCommand.UNMUTE,)),
                    Arg("volume", 0.0, 0.5, (1.0,)), Arg("media_url", "", "http://x/y.mp3", ("é", LONG, HUGE, GIANT)), Arg("announcement", False, True)],
        },
        "lock_command": {
            "msg": "LockCommandRequest",
            "req": [("command", [m.LockCommand.UNLOCK, m.LockCommand.LOCK, m.LockCommand.OPEN])],
            "opt": [Arg("code", "", "1234", ("é0",))],
        },
        "alarm_control_panel_command": {
            "msg": "AlarmControlPanelCommandRequest",
            "req": [("command", list(m.AlarmControlPanelCommand))],
            "opt": [Arg("code", "", "1234", ("é0",))],
        },
        "switch_command": {"msg": "SwitchCommandRequest", "req": [("state", [False, True])], "opt": []},
        "number_command": {"msg": "NumberCommandRequest", "req": [("state", [0.0, -0.0, 1.5, -273.15, 1e10, 0.1])], "opt": []},
        "select_command": {"msg": "SelectCommandRequest", "req": [("state", ["", "opt", "é\U0001f600"])], "opt": []},
        "text_command": {"msg": "TextCommandRequest", "req": [("state", ["", "hello", "é\U0001f600", LONG, HUGE, GIANT, "G" * 40000])], "opt": []},
        "button_command": {"msg": "ButtonCommandRequest", "req": [], "opt": []},
        "update_command": {"msg": "UpdateCommandRequest", "req": [("command", list(m.UpdateCommand))], "opt": []},
        "date_command": {"msg": "DateCommandRequest", "req": [("year", [0, 2024, 9999]), ("month", [0, 1, 12]), ("day", [0, 1, 31])], "opt": []},
        "time_command": {"msg": "TimeCommandRequest", "req": [("hour", [0, 23]), ("minute", [0, 59]), ("second", [0, 59])], "opt": []},
        "datetime_command": {"msg": "DateTimeCommandRequest", "req": [("epoch_seconds", [0, 1, 1700000000, 2**32 - 1])], "opt": []},
    }


VERSION_SENSITIVE = {"cover_command", "climate_command"}


def run_ms_sweep(version: tuple[int, int]) -> dict[str, Any]:
    """Every whole millisecond 0..10 s (and a sparse tail) for the two duration arguments of light_command."""
    env.load()
    s = Session(version)
    viol: list[tuple[str, str, Any]] = []
    calls = 0
    try:
        values = [k / 1000.0 for k in range(0, 10001)] + [k / 1000.0 for k in range(10007, 4000000, 9973)] + [k + 0.0005 for k in (0, 1, 7)]
        for arg in ("transition_length", "flash_length"):
            for v in values:
                frames, err, _w = s.call("light_command", {"key": 1, arg: v})
                calls += 1
                if err is not None or len(frames) != 1:
                    viol.append((f"light_command:{arg}:ms-sweep:frames", f"light_command({arg}={v}) wrote {frames!r} (error {err})", {"arg": arg, "value": v}))
                    break
                got = getattr(frames[0][1], arg)
                if abs(got - v * 1000.0) > 0.5 + 1e-6 or not getattr(frames[0][1], "has_" + arg):
                    viol.append((f"light_command:{arg}:milliseconds", f"light_command({arg}={v!r}) sent {arg}={got} ms, nearest whole millisecond is "
                                 f"{int(v * 1000 + 0.5)}", {"arg": arg, "value": v}))
                    break
    finally:
        s.close()
    return {"method": "light_command(ms sweep)", "version": version, "calls": calls, "nontrivial": calls, "viol": viol}


LONG = "L" * 300
HUGE = "h\u00e9" * 2500
GIANT = "g" * 20000  # a payload whose length needs the upper half of a two-byte varint / more than 15 bits


class Session:
    def __init__(self, version: tuple[int, int], noise: bool = False, name: str | None = None) -> None:
        self.version = version
        self.noise = noise
        w = ConnWorld(client=True, login=True, noise=noise)
        w.do_start()
        w.do_tcp_ok()
        w.do_finish_call()
        w.do_handshake()
        w.io_chunk(w.sock, w.dframe(w.hello_resp(major=version[0], minor=version[1], name=name)) + w.dframe(w.connect_resp()))
        w.drain()
        if w.outcome("finish") != "ok":
            raise HarnessError(f"connect failed: {w.results}")
        self.w = w
        self.sock = w.sock
        self.mark = len(self.sock.sent)
        self.fmark = len(w.sent_frames())
        self.ids = env.proto_ids()

    def call(self, method: str, kwargs: dict[str, Any]) -> tuple[list[tuple[str, Any]], str | None, int]:
        pb = env.pb()
        err = None
        try:
            getattr(self.w.client, method)(**kwargs)
        except Exception as e:  # noqa: BLE001
            err = f"{type(e).__name__}: {e}"
        new = self.sock.sent[self.mark:]
        self.mark = len(self.sock.sent)
        out = []
        try:
            if self.noise:
                fr = self.w.sent_frames()  # decrypted and length-checked by the reference responder
                frames = fr[self.fmark:]
                self.fmark = len(fr)
            else:
                frames = [f for _, data in new for f in wire.decode_strict(data)]
        except Exception as e:  # noqa: BLE001
            return [], f"written bytes do not decode: {type(e).__name__}: {e}", len(new)
        for typ, payload in frames:
            name = self.ids.get(typ, f"?{typ}")
            msg = getattr(pb, name)()
            msg.ParseFromString(payload)
            out.append((name, msg))
        return out, err, len(new)

    def close(self) -> None:
        self.w.close()


def expected_request(method: str, spec: dict[str, Any], version: tuple[int, int], key: int, req_vals: dict[str, Any],
                     supplied: dict[str, Any], got: Any) -> tuple[Any, list[str]]:
    """The request the spec demands; ``got`` is only consulted for the rounding tolerance of durations."""
    pb = env.pb()
    klass = getattr(pb, spec["msg"])
    fields = klass.DESCRIPTOR.fields_by_name
    exp = klass(key=key)
    notes: list[str] = []
    for k, v in req_vals.items():
        setattr(exp, k, v)
    legacy_cover = method == "cover_command" and version < (1, 1)
    for a in spec["opt"]:
        if a.name not in supplied:
            continue
        v = supplied[a.name]
        if legacy_cover:
            continue
        if method == "climate_command" and a.name == "preset" and version < (1, 5):
            exp.has_legacy_away = True
            exp.legacy_away = int(v) == 2  # CLIMATE_PRESET_AWAY
            continue
        if a.flag:
            setattr(exp, a.field, bool(v))
            continue
        has = "has_" + a.name
        if has in fields:
            setattr(exp, has, True)
        if a.components:
            for comp, x in zip(a.components, v):
                setattr(exp, comp, x)
        elif a.ms:
            ms = v * 1000.0
            g = getattr(got, a.field) if got is not None else None
            if g is not None and abs(g - ms) <= 0.5 + 1e-9:
                setattr(exp, a.field, g)  # nearest whole millisecond; an exact tie may go either way
            else:
                setattr(exp, a.field, int(ms + 0.5))
        else:
            setattr(exp, a.field, v)
    if legacy_cover:
        # below 1.1 only open/close/stop exist; a stop request overrides a position, as it does on the device
        if supplied.get("stop"):
            exp.has_legacy_command = True
            exp.legacy_command = 2
        elif supplied.get("position", OMIT) == 1.0:
            exp.has_legacy_command = True
            exp.legacy_command = 0
        elif supplied.get("position", OMIT) == 0.0:
            exp.has_legacy_command = True
            exp.legacy_command = 1
    return exp, notes


def assignments(opt: list[Arg], mode: str) -> Any:
    """Yield dicts arg->value.  mode: 'full' = 3^k; 'subsets' = 2^k falsy + 2^k typical; plus extremes one at a time."""
    names = [a.name for a in opt]
    if mode == "full":
        for combo in itertools.product((0, 1, 2), repeat=len(opt)):
            yield {a.name: (a.falsy if c == 1 else a.typical) for a, c in zip(opt, combo) if c}
    else:
        for which in ("falsy", "typical"):
            for mask in range(1 << len(opt)):
                yield {a.name: getattr(a, which) for i, a in enumerate(opt) if mask >> i & 1}
    for a in opt:
        for x in a.extremes:
            yield {a.name: x}
            # an extreme value together with every other argument supplied (typical)
            d = {b.name: b.typical for b in opt}
            d[a.name] = x
            yield d
    del names


def key_of(method: str, version: tuple[int, int], supplied: dict[str, Any], diff_fields: list[str]) -> str:
    legacy = ""
    if method == "cover_command" and version < (1, 1):
        legacy = ":legacy<1.1"
    if method == "climate_command" and version < (1, 5) and "preset" in supplied:
        legacy = ":legacy<1.5"
    return f"{method}{legacy}:{','.join(sorted(diff_fields))}"


def diff_fields(a: Any, b: Any) -> list[str]:
    out = []
    for fd in a.DESCRIPTOR.fields:
        x, y = getattr(a, fd.name), getattr(b, fd.name)
        if pbgen.is_repeated(fd):
            if list(x) != list(y):
                out.append(fd.name)
        elif x != y and not (x != x and y != y):
            out.append(fd.name)
    return out


def run_method(args: tuple[Any, ...]) -> dict[str, Any]:
    method, version, mode = args[:3]
    noise = len(args) > 3 and bool(args[3])
    hello_name = args[4] if len(args) > 4 else None
    env.load()
    spec = specs()[method]
    s = Session(version, noise=noise, name=hello_name)
    calls = 0
    nontrivial = 0
    viol: list[tuple[str, str, Any]] = []
    seen_keys: set[str] = set()
    try:
        req_lists = spec.get("req", [])
        req_combos = list(itertools.product(*[vals for _, vals in req_lists])) if req_lists else [()]
        for ki, key in enumerate(KEYS):
            for rc in (req_combos if ki == 0 else req_combos[:1]):
                req_vals = {n: v for (n, _), v in zip(req_lists, rc)}
                for supplied in assignments(spec["opt"], mode if ki == 0 else "subsets-min"):
                    if ki != 0 and len(supplied) not in (0, len(spec["opt"])):
                        continue
                    kwargs = {"key": key, **req_vals, **supplied}
                    frames, err, writes = s.call(method, kwargs)
                    calls += 1
                    if supplied:
                        nontrivial += 1
                    desc = {"method": method, "version": list(version), "noise": noise, "hello_name": hello_name,
                            "kwargs": {k: repr(v)[:80] for k, v in kwargs.items()}}
                    if err is not None:
                        k = f"{method}:raises"
                        if k not in seen_keys:
                            seen_keys.add(k)
                            viol.append((k, f"{method}({kwargs}) raised {err}", desc))
                        continue
                    if len(frames) != 1 or writes != 1 or frames[0][0] != spec["msg"]:
                        k = f"{method}:frames"
                        if k not in seen_keys:
                            seen_keys.add(k)
                            viol.append((k, f"{method} wrote {[f[0] for f in frames]} in {writes} writes, expected one {spec['msg']}", desc))
                        continue
                    got = frames[0][1]
                    exp, _ = expected_request(method, spec, version, key, req_vals, supplied, got)
                    if got != exp:
                        df = diff_fields(got, exp)
                        if not df:
                            continue
                        k = key_of(method, version, supplied, df)  # the same key whatever the transport: a finding is a (method, fields) pair
                        if k not in seen_keys:
                            seen_keys.add(k)
                            viol.append((k, f"{method}({', '.join(f'{a}={v!r}'[:60] for a, v in kwargs.items())}) at API {version[0]}.{version[1]}"
                                         f"{' over Noise' if noise else ''}{' (device announced no name)' if hello_name == '' else ''}: "
                                         f"fields {df} differ: sent {{{', '.join(f'{f}={getattr(got, f)!r}' for f in df)}}}, "
                                         f"expected {{{', '.join(f'{f}={getattr(exp, f)!r}' for f in df)}}}", desc))
    finally:
        s.close()
    return {"method": method, "version": version, "calls": calls, "nontrivial": nontrivial, "viol": viol}


# ---------------------------------------------------------------------------------------------------
# execute_service
# ---------------------------------------------------------------------------------------------------
def run_services(version: tuple[int, int], hello_name: str | None = None) -> dict[str, Any]:
    env.load()
    from aioesphomeapi import model as m

    pb = env.pb()
    T = m.UserServiceArgType
    values: dict[Any, list[Any]] = {
        T.BOOL: [False, True],
        T.INT: [0, 1, -1, 2**31 - 1, -(2**31)],
        T.FLOAT: [0.0, 1.5, -0.25],
        T.STRING: ["", "abc", "é\U0001f600", LONG],
        T.BOOL_ARRAY: [[], [True], [False, True, False]],
        T.INT_ARRAY: [[], [0], [1, -1, 2**31 - 1]],
        T.FLOAT_ARRAY: [[], [0.0], [1.5, -0.25]],
        T.STRING_ARRAY: [[], [""], ["a", "é", ""]],
    }
    wire_field = {T.BOOL: "bool_", T.FLOAT: "float_", T.STRING: "string_", T.BOOL_ARRAY: "bool_array", T.INT_ARRAY: "int_array",
                  T.FLOAT_ARRAY: "float_array", T.STRING_ARRAY: "string_array"}

    def field_for(t: Any) -> str:
        if t == T.INT:
            return "int_" if version >= (1, 3) else "legacy_int"
        return wire_field[t]

    s = Session(version, name=hello_name)
    calls = 0
    viol: list[tuple[str, str, Any]] = []
    seen: set[str] = set()

    def one(types: list[Any], vals: list[Any], key: int) -> None:
        nonlocal calls
        svc = m.UserService(name="svc", key=key, args=[m.UserServiceArg(name=f"a{i}", type=t) for i, t in enumerate(types)])
        data = {f"a{i}": v for i, v in enumerate(vals)}
        frames, err, writes = s.call("execute_service", {"service": svc, "data": data})
        calls += 1
        desc = {"version": list(version), "types": [t.name for t in types], "values": repr(vals)}
        if err is not None or len(frames) != 1 or frames[0][0] != "ExecuteServiceRequest" or writes != 1:
            k = "execute_service:frames"
            if k not in seen:
                seen.add(k)
                viol.append((k, f"execute_service wrote {[f[0] for f in frames]} (error {err})", desc))
            return
        exp = pb.ExecuteServiceRequest(key=key)
        for t, v in zip(types, vals):
            a = exp.args.add()
            if isinstance(v, list):
                getattr(a, field_for(t)).extend(v)
            else:
                setattr(a, field_for(t), v)
        if frames[0][1] != exp:
            legacy = ":legacy<1.3" if version < (1, 3) and T.INT in types else ""
            k = f"execute_service{legacy}:{'+'.join(sorted({t.name for t in types}))}"[:90]
            if k not in seen:
                seen.add(k)
                viol.append((k, f"execute_service types {[t.name for t in types]} values {vals!r} at API {version}: sent {frames[0][1]!r}, expected {exp!r}", desc))

    try:
        for t, vs in values.items():
            for v in vs:
                for key in (KEYS if v == vs[0] else KEYS[2:3]):
                    one([t], [v], key)
        for t1, t2 in itertools.permutations(values, 2):
            one([t1, t2], [values[t1][-1], values[t2][-1]], 7)
        allt = list(values)
        for pick in range(3):
            one(allt, [values[t][min(pick, len(values[t]) - 1)] for t in allt], 9)
            one(list(reversed(allt)), [values[t][min(pick, len(values[t]) - 1)] for t in reversed(allt)], 9)
        one([], [], 3)
        # values of a neighbouring Python type (bool is an int, an int is acceptable where a float is asked for): the call may refuse
        # them (raising, nothing written), but if it writes a request the value sits in the field of the declared argument type
        for t, v in ((T.INT, True), (T.INT, False), (T.FLOAT, 3), (T.BOOL, 1), (T.INT_ARRAY, [True, 2]), (T.FLOAT_ARRAY, [1, 2])):
            svc = m.UserService(name="svc", key=11, args=[m.UserServiceArg(name="a0", type=t)])
            frames, err, writes = s.call("execute_service", {"service": svc, "data": {"a0": v}})
            calls += 1
            if err is not None and not frames:
                continue
            desc = {"version": list(version), "types": [t.name], "values": repr(v)}
            ok = len(frames) == 1 and frames[0][0] == "ExecuteServiceRequest" and len(frames[0][1].args) == 1
            if ok:
                a = frames[0][1].args[0]
                set_fields = sorted(fd.name for fd, _ in a.ListFields())
                want_field = field_for(t)
                got_v = getattr(a, want_field)
                ok = set_fields in ([want_field], []) and (list(got_v) == list(v) if isinstance(v, list) else got_v == v)
            if not ok:
                legacy = ":legacy<1.3" if version < (1, 3) and t == T.INT else ""
                k = f"execute_service{legacy}:neighbour-type:{t.name}"
                if k not in seen:
                    seen.add(k)
                    viol.append((k, f"execute_service argument of type {t.name} given {v!r} at API {version}: wrote {[str(f[1]).strip() for f in frames]} "
                                 f"(error {err}); the value belongs in field {field_for(t)}", desc))
    finally:
        s.close()
    return {"method": "execute_service", "version": version, "calls": calls, "nontrivial": calls, "viol": viol}


def run_backpressure(noise: bool) -> dict[str, Any]:
    """Commands issued while the socket cannot take (all of) the bytes: asyncio queues what it was given and sends it later.
    What finally reaches the device must still be exactly the requests, in order."""
    env.load()
    from aioesphomeapi import model as m

    pb = env.pb()
    viol: list[tuple[str, str, Any]] = []
    calls = 0
    seqs = [
        [("switch_command", {"key": 1, "state": True}), ("number_command", {"key": 2, "state": 1.5}), ("text_command", {"key": 3, "state": "abc"})],
        [("light_command", {"key": 4, "brightness": 0.5, "effect": "x" * 200}), ("light_command", {"key": 5, "state": False}),
         ("fan_command", {"key": 6, "speed_level": 3}), ("button_command", {"key": 7})],
        [("text_command", {"key": 8, "state": "y" * 3000}), ("select_command", {"key": 9, "state": "opt"}), ("cover_command", {"key": 10, "position": 0.25}),
         ("lock_command", {"key": 11, "command": m.LockCommand.LOCK}), ("switch_command", {"key": 12, "state": False})],
    ]
    sp = specs()
    for si, seq in enumerate(seqs):
        for mode in ("blocked", "partial-1", "partial-7", "blocked-after-first", "paused-raced"):
            s = Session((1, 10), noise=noise)
            try:
                sock = s.sock
                if mode == "paused-raced":
                    # the device stops reading, more than asyncio's high-water mark is queued (the protocol is told to pause), further
                    # commands follow, and the last one is issued in the loop turn in which the socket drains (from a timer due in that turn)
                    sock.writable = False
                    seq = [("text_command", {"key": 90 + j, "state": "z" * 30000}) for j in range(3)] + list(seq)
                if mode == "blocked":
                    sock.writable = False
                elif mode.startswith("partial"):
                    sock.send_limit = int(mode.split("-")[1])
                expected = []
                for i, (meth, kw) in enumerate(seq):
                    if mode == "blocked-after-first" and i == 1:
                        sock.writable = False
                    try:
                        getattr(s.w.client, meth)(**kw)
                    except Exception as e:  # noqa: BLE001
                        viol.append((f"backpressure:{'noise' if noise else 'plain'}:{mode}:raises",
                                     f"{meth} issued while the socket was {mode} raised {type(e).__name__}: {e}", {"mode": mode, "seq": si}))
                        break
                    calls += 1
                    spec = sp[meth]
                    req_vals = {k: v for k, v in kw.items() if k in [r[0] for r in spec.get("req", [])]}
                    supplied = {k: v for k, v in kw.items() if k != "key" and k not in req_vals}
                    exp, _ = expected_request(meth, spec, (1, 10), kw["key"], req_vals, supplied, None)
                    expected.append((spec["msg"], exp))
                sock.writable = True
                if mode == "paused-raced":
                    s.w.loop.call_later(0, lambda: s.w.client.switch_command(key=99, state=True))
                    kw99 = {"key": 99, "state": True}
                    rq99 = {k: v for k, v in kw99.items() if k in [r[0] for r in sp["switch_command"].get("req", [])]}
                    exp99, _ = expected_request("switch_command", sp["switch_command"], (1, 10), 99, rq99,
                                                {k: v for k, v in kw99.items() if k != "key" and k not in rq99}, None)
                    expected.append((sp["switch_command"]["msg"], exp99))
                    calls += 1
                s.w.drain()
                try:
                    if noise:
                        frames = s.w.sent_frames()[s.fmark:]
                    else:
                        data = b"".join(b for _, b in sock.sent[s.mark:])
                        frames = wire.decode_strict(data)
                except Exception as e:  # noqa: BLE001
                    viol.append((f"backpressure:{'noise' if noise else 'plain'}:{mode}:undecodable",
                                 f"commands {[x[0] for x in seq]} issued while the socket was {mode}: what reached the device does not decode: "
                                 f"{type(e).__name__}: {e}", {"mode": mode, "seq": si}))
                    continue
                got = []
                for typ, payload in frames:
                    name = s.ids.get(typ, f"?{typ}")
                    msg = getattr(pb, name)()
                    msg.ParseFromString(payload)
                    got.append((name, msg))
                if got != expected:
                    viol.append((f"backpressure:{'noise' if noise else 'plain'}:{mode}",
                                 f"commands {[x[0] for x in seq]} issued while the socket was {mode}: the device received "
                                 f"{[(n, getattr(g, 'key', None)) for n, g in got]}, expected {[(n, e.key) for n, e in expected]}", {"mode": mode, "seq": si}))
            finally:
                s.close()
    return {"method": "backpressure", "version": (1, 10), "calls": calls, "nontrivial": calls, "viol": viol}


def run_camera(version: tuple[int, int]) -> dict[str, Any]:
    env.load()
    pb = env.pb()
    s = Session(version)
    viol: list[tuple[str, str, Any]] = []
    try:
        for meth, exp in (("request_single_image", pb.CameraImageRequest(single=True)), ("request_image_stream", pb.CameraImageRequest(stream=True))):
            frames, err, writes = s.call(meth, {})
            if err is not None or len(frames) != 1 or frames[0][1] != exp or frames[0][0] != "CameraImageRequest":
                viol.append((f"{meth}:request", f"{meth} wrote {frames!r} (error {err}), expected {exp!r}", {"method": meth}))
    finally:
        s.close()
    return {"method": "camera", "version": version, "calls": 2, "nontrivial": 2, "viol": viol}


# ---------------------------------------------------------------------------------------------------
# one long-lived client over consecutive sessions with different negotiated versions
# ---------------------------------------------------------------------------------------------------
RESESSION_VERSIONS = [(1, 0), (1, 10), (1, 0), (1, 4), (1, 5), (1, 2), (1, 3), (1, 2), (2, 0), (1, 0)]
RESESSION_ENDERS = ("eof", "disconnect", "force")
RESESSION_OPENERS = ("two-phase", "connect")


def _probe_calls() -> list[tuple[str, dict[str, Any]]]:
    """Every command method once with all optional arguments typical, once with none, plus the version-sensitive shapes."""
    from aioesphomeapi import model as m

    out: list[tuple[str, dict[str, Any]]] = []
    for method, spec in specs().items():
        req = {n: vals[0] for n, vals in spec.get("req", [])}
        out.append((method, {"key": 5, **req, **{a.name: a.typical for a in spec["opt"]}}))
        out.append((method, {"key": 5, **req}))
    out += [("cover_command", {"key": 5, "position": 1.0}), ("cover_command", {"key": 5, "position": 0.0}), ("cover_command", {"key": 5, "stop": True}),
            ("climate_command", {"key": 5, "preset": m.ClimatePreset.AWAY}), ("climate_command", {"key": 5, "preset": m.ClimatePreset.HOME})]
    svc = m.UserService(name="s", key=7, args=[m.UserServiceArg(name="x", type=m.UserServiceArgType.INT),
                                                m.UserServiceArg(name="y", type=m.UserServiceArgType.STRING)])
    out.append(("execute_service", {"service": svc, "data": {"x": 5, "y": "z"}}))
    return out


def run_resessions(args: tuple[str, str]) -> dict[str, Any]:
    """What a command puts on the wire depends on the version negotiated in the *current* session only: one client object goes through
    consecutive sessions (ended by the device, by disconnect(), by a forced disconnect; reopened through connect() or through the
    two-phase API a reconnect manager uses) and in each of them writes exactly what a fresh client writes at that version."""
    ender, opener = args
    env.load()
    pb = env.pb()
    ids = env.proto_ids()
    viol: list[tuple[str, str, Any]] = []
    calls = 0
    probes = _probe_calls()
    fresh: dict[tuple[int, int], list[Any]] = {}

    def run_probes(client: Any, sock: Any) -> list[Any]:
        out = []
        for method, kwargs in probes:
            mark = len(sock.sent)
            try:
                getattr(client, method)(**kwargs)
            except Exception as e:  # noqa: BLE001
                out.append((method, f"raised {type(e).__name__}: {e}"))
                continue
            data = b"".join(d for _, d in sock.sent[mark:])
            try:
                frames = wire.decode_strict(data)
            except Exception as e:  # noqa: BLE001
                out.append((method, f"undecodable: {type(e).__name__}"))
                continue
            out.append((method, [(ids.get(t, str(t)), bytes(pl)) for t, pl in frames]))
        return out

    for v in sorted(set(RESESSION_VERSIONS)):
        s = Session(v)
        try:
            fresh[v] = run_probes(s.w.client, s.sock)
        finally:
            s.close()
    w = ConnWorld(client=True, login=True)
    try:
        async def on_stop(expected: bool) -> None:
            return None

        for i, v in enumerate(RESESSION_VERSIONS):
            if opener == "two-phase":
                w.spawn(f"start{i}", lambda: w.client.start_connection(on_stop=on_stop))
                w.drain()
                w.io_connect(w.sock, 0)
                w.drain()
                w.spawn(f"finish{i}", lambda: w.client.finish_connection(login=True))
                w.drain()
                last = f"finish{i}"
            else:
                w.spawn(f"connect{i}", lambda: w.client.connect(on_stop=on_stop, login=True))
                w.drain()
                w.io_connect(w.sock, 0)
                w.drain()
                last = f"connect{i}"
            w.io_chunk(w.sock, w.dframe(w.hello_resp(major=v[0], minor=v[1])) + w.dframe(w.connect_resp()))
            w.drain()
            if w.outcome(last) != "ok":
                raise HarnessError(f"session {i} at {v} was not established: {w.results.get(last)}")
            got = run_probes(w.client, w.sock)
            calls += len(got)
            for (method, a), (_m, b) in zip(got, fresh[v]):
                if a != b:
                    def show(x: Any) -> str:
                        if isinstance(x, str):
                            return x
                        parts = []
                        for name, pl in x:
                            msg = getattr(pb, name)()
                            msg.ParseFromString(pl)
                            parts.append(f"{name}({str(msg).strip().replace(chr(10), ', ')[:160]})")
                        return "[" + "; ".join(parts) + "]"
                    prev = RESESSION_VERSIONS[i - 1] if i else None
                    viol.append((f"resession:{method}", f"{method} in session {i + 1} of one client (API {v[0]}.{v[1]}, previous session "
                                 f"{prev}, ended by {ender}, reopened with {opener}) wrote {show(a)}; a fresh client at that version writes {show(b)}",
                                 {"resession": [ender, opener]}))
            sock = w.sock
            if ender == "eof":
                w.io_eof(sock)
                w.drain()
            elif ender == "disconnect":
                w.spawn(f"disc{i}", lambda: w.client.disconnect())
                w.drain()
                if not sock.closed:
                    w.io_chunk(sock, w.dframe(pb.DisconnectResponse()))
                    w.drain()
            else:
                w.spawn(f"disc{i}", lambda: w.client.disconnect(force=True))
                w.drain()
            w.drain()
            if not sock.closed:
                raise HarnessError(f"session {i} did not end ({ender})")
    finally:
        w.close()
    seen: set[str] = set()
    uniq = []
    for k, c, d in viol:
        if k not in seen:
            seen.add(k)
            uniq.append((k, c, d))
    return {"method": f"resessions({ender},{opener})", "version": (0, 0), "calls": calls, "nontrivial": calls, "viol": uniq}


def _job(j: tuple[Any, ...]) -> dict[str, Any]:
    if j[0] == "svc":
        return run_services(*j[1:])
    if j[0] == "cam":
        return run_camera(j[1])
    if j[0] == "ms":
        return run_ms_sweep(j[1])
    if j[0] == "bp":
        return run_backpressure(j[1])
    if j[0] == "resess":
        return run_resessions((j[1], j[2]))
    return run_method(j[1:])


def check_spec_table(res: Result) -> int:
    """The hand-written table against the descriptors: every optional argument with a has_<arg> companion uses it,
    and every has_* field of a command request belongs to an argument of the table (nothing unspecified)."""
    pb = env.pb()
    import inspect

    from aioesphomeapi.client import APIClient

    n = 0
    sp = specs()
    for method, spec in sp.items():
        fields = getattr(pb, spec["msg"]).DESCRIPTOR.fields_by_name
        sig = inspect.signature(getattr(APIClient, method))
        params = [p for p in sig.parameters if p not in ("self", "key")]
        table = [r[0] for r in spec.get("req", [])] + [a.name for a in spec["opt"]]
        n += 1
        if sorted(params) != sorted(table):
            res.add(f"spec:{method}:params", f"{method} has parameters {params}; the specification table knows {table}")
        covered = {"has_" + a.name for a in spec["opt"]}
        for f in fields:
            n += 1
            if f.startswith("has_") and f not in covered and not f.startswith("has_legacy"):
                res.add(f"spec:{method}:{f}", f"{spec['msg']}.{f} has no argument in {method}")
    # every *CommandRequest of the protocol has a method in the table
    have = {s["msg"] for s in sp.values()}
    for name in pb.DESCRIPTOR.message_types_by_name:
        n += 1
        if name.endswith("CommandRequest") and name not in have:
            res.add(f"spec:uncovered:{name}", f"{name} is not covered by the command specification table")
    return n


def run(tier: str, seed: int) -> Result:
    env.load()
    res = Result("C15", "exploration")
    spec_evals = check_spec_table(res)
    sp = specs()
    jobs: list[tuple[Any, ...]] = []
    quick = tier == "quick"
    for method, spec in sp.items():
        k = len(spec["opt"])
        full_ok = 3**k <= 10**7
        versions = VERSIONS if (method in VERSION_SENSITIVE or not quick) else [(1, 0), (1, 10), (2, 0)]
        for v in versions:
            mode = "full" if full_ok and (v in ((1, 0), (1, 10), (1, 4), (1, 5), (1, 1), (2, 0)) or not quick or k <= 6) else "subsets"
            if method == "light_command" and v not in (((1, 10),) if quick else ((1, 0), (1, 10))):
                mode = "subsets"  # 3^12 twice is enough: light has no version-dependent encoding
            jobs.append(("m", method, v, mode))
    # the encrypted transport (long arguments cross its 256-byte and 16-bit boundaries) and a device that announces no name
    for method, spec in sp.items():
        jobs.append(("m", method, (1, 10), "subsets", True))
        if method in VERSION_SENSITIVE:
            for v in VERSIONS:
                jobs.append(("m", method, v, "subsets", False, ""))
            jobs.append(("m", method, (1, 0), "subsets", True, ""))
    for v in VERSIONS:
        jobs.append(("svc", v))
        jobs.append(("svc", v, ""))
    jobs.append(("cam", (1, 10)))
    jobs.append(("ms", (1, 10)))
    jobs.append(("bp", False))
    jobs.append(("bp", True))
    for en in RESESSION_ENDERS:
        for op in RESESSION_OPENERS:
            jobs.append(("resess", en, op))
    jobs.sort(key=lambda j: 0 if (j[0] == "m" and j[1] == "light_command" and j[3] == "full") else 1)
    ctx = mp.get_context("fork")
    with ctx.Pool(min(16, os.cpu_count() or 1)) as pool:
        results = pool.map(_job, jobs, chunksize=1)
    calls = sum(r["calls"] for r in results)
    nontrivial = sum(r["nontrivial"] for r in results)
    per_method: dict[str, int] = {}
    for r in results:
        per_method[r["method"]] = per_method.get(r["method"], 0) + r["calls"]
        for k, clause, detail in r["viol"]:
            res.add(k, clause, detail)
    if calls < 20000 or len(per_method) < 20:
        raise HarnessError(f"vacuous: {calls} calls over {len(per_method)} methods")
    res.coverage = {
        "evaluations": calls + spec_evals,
        "distinct_nontrivial": nontrivial,
        "rule": "one evaluation = one command call on a connected simulated session whose single written frame is decoded independently "
        "and compared as a whole message with the specified request (or one consistency check of the specification table against "
        "the descriptors / method signatures); distinct_nontrivial = calls with at least one optional argument supplied",
        "calls_per_method": per_method,
        "versions": [f"{a}.{b}" for a, b in VERSIONS],
        "light_command_full_3^12": True,
        "exhaustive": True,
        "samples": [{"job": list(map(str, j))} for j in jobs[:3]],
    }
    res.assumptions = [
        "the specification table (argument -> field, presence flag, unit conversion, legacy encodings) is hand-written in this module from api.proto "
        "and the property statement; it is cross-checked against the method signatures and the has_* fields of every *CommandRequest",
        "seconds->milliseconds: the nearest whole millisecond; for an exact .5 tie either neighbour is accepted",
        "below API 1.1 a cover stop request takes precedence over a position (as on the device, where stop discards the position)",
        "below API 1.1 positions other than fully open/closed and tilt have no encoding; the request then carries only the key",
        "plain bool parameters with a default (stop) have no 'omitted' state: the field equals the value",
    ]
    return res


def replay(rp: dict[str, Any]) -> bool:
    d = rp.get("detail") or {}
    r = run("quick", 0)
    bad = [v for v in r.violations if v.key == rp["key"]]
    print(rp["key"], d.get("kwargs"), "->", "still violated" if bad else "holds")
    for v in bad:
        print(" ", v.clause)
    return not bad
