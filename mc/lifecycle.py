"""Lifecycle harness: one APIConnection, user calls, a scripted device, faults and time.

Shared by C05, C07, C08, C09.  The alphabet (labels) is:

  user     start  finish  disc  force  cancel:<task>  start2  finish2
  device   tcp:ok  tcp:err  c:<A>[+<B>]  eof  rst
  faults   wf:sync  wf:async           (arm a write failure for the next write)
  time     time                        (advance the clock to the next live timer)
  ["nd", x]                            x without draining the loop afterwards (deviation, cost 1)

Default semantics of a label: perform it, then run the loop until it is quiescent.  With the
"nd" modifier an I/O label runs exactly one loop iteration (its own I/O callback) and a user /
time label runs none, so the next label lands in front of the wake-ups the first one scheduled:
that is how "same event-loop turn" orderings are produced.
"""

from __future__ import annotations

import errno
from typing import Any, Callable

from . import env, fingerprint
from .vloop import HarnessError
from .world import ConnWorld, mk, msg_id
from . import wire, noise_ref

ORDER = {"INITIALIZED": 0, "SOCKET_OPENED": 1, "HANDSHAKE_COMPLETE": 2, "CONNECTED": 3, "CLOSED": 4}

USER_ONCE = ("start", "finish", "disc")

# chunk atoms ------------------------------------------------------------------------------------


def _plain_or_noise(w: ConnWorld, msg: Any) -> bytes:
    return w.dframe(msg)


def _raw(w: ConnWorld, typ: int, payload: bytes) -> bytes:
    if not w.noise:
        return wire.encode_frame(typ, payload)
    assert w.ndev is not None
    return w.ndev.data_frame(typ, payload)


ATOMS: dict[str, Callable[[ConnWorld], bytes]] = {
    "H": lambda w: w.dframe(w.hello_resp()),
    "C": lambda w: w.dframe(w.connect_resp()),
    "BV": lambda w: w.dframe(w.hello_resp(major=3)),
    "BN": lambda w: w.dframe(w.hello_resp(name="other")),
    "BP": lambda w: w.dframe(w.connect_resp(invalid=True)),
    "DR": lambda w: w.dframe(mk("DisconnectRequest")),
    "DRESP": lambda w: w.dframe(mk("DisconnectResponse")),
    "PR": lambda w: w.dframe(mk("PingRequest")),
    "PRESP": lambda w: w.dframe(mk("PingResponse")),
    "ST": lambda w: w.dframe(mk("SensorStateResponse", key=7, state=1.5)),
    "DI": lambda w: w.dframe(mk("DeviceInfoResponse", name="dev")),
    "UK": lambda w: _raw(w, 9999, b"xx"),
    # undefined types whose low byte is the id of DisconnectRequest / PingRequest (a frame helper that loses the high byte would alias them)
    "UKD": lambda w: _raw(w, 256 + msg_id("DisconnectRequest"), b""),
    "UKP": lambda w: _raw(w, 512 + msg_id("PingRequest"), b""),
    "BAD": lambda w: _raw(w, msg_id("SensorStateResponse"), b"\xff\xff\xff"),
    # framing-level garbage
    "PRE": lambda w: b"\x02garbage" if not w.noise else b"\x00\x00\x01x",
    "ENC": lambda w: b"\x01\x00\x00",  # a Noise frame start at a plaintext client
    "ENC1": lambda w: b"\x01",  # only its first byte (the rest of the device's answer is still on its way)
    # noise handshake
    "NH": lambda w: w.noise_handshake_bytes(),
    "NHELLO": lambda w: _nhello(w),
    "NSHAKE": lambda w: _nshake(w),
    "NHE": lambda w: _nhello(w) + noise_ref.outer(b"\x01Handshake MAC failure"),
    "TAMPER": lambda w: _tamper(w),
}
NOISE_ONLY = {"NH", "NHELLO", "NSHAKE", "NHE", "TAMPER"}
NEEDS_HANDSHAKE_DONE = {"H", "C", "BV", "BN", "BP", "DR", "DRESP", "PR", "PRESP", "ST", "DI", "UK", "UKD", "UKP", "BAD", "TAMPER"}
PLAIN_ONLY = {"ENC", "ENC1"}


def _nhello(w: ConnWorld) -> bytes:
    assert w.ndev is not None
    w._feed_noise(w.sock)  # type: ignore[arg-type]
    return w.ndev.hello_frame()


def _nshake(w: ConnWorld) -> bytes:
    assert w.ndev is not None
    w._feed_noise(w.sock)  # type: ignore[arg-type]
    return w.ndev.handshake_frame()


def _tamper(w: ConnWorld) -> bytes:
    f = bytearray(w.dframe(mk("SensorStateResponse", key=7, state=2.5)))
    f[-1] ^= 0x01
    return bytes(f)


class Monitor:
    """Runs after every callback and after every direct user call."""

    def __init__(self, w: "LifeWorld") -> None:
        self.w = w
        self.prev = w.conn.connection_state.name
        self.trail = [self.prev]
        self.viol: list[str] = []
        self.ever_connected = False
        self.closed_seq: int | None = None  # index into w.log when CLOSED was first observed
        self.n = 0

    def __call__(self, handle: Any = None, transitions_only: bool = False) -> None:
        self.n += 1
        c = self.w.conn
        s = c.connection_state.name
        if s != self.prev:
            if self.prev == "CLOSED":
                self.viol.append(f"C05:left-closed:{self.prev}->{s}")
            elif ORDER[s] < ORDER[self.prev]:
                self.viol.append(f"C05:backwards:{self.prev}->{s}")
            self.trail.append(s)
            self.w.note("state", s)
            if s == "CLOSED" and self.closed_seq is None:
                self.closed_seq = len(self.w.log)
            self.prev = s
        if bool(c.is_connected) != (s == "CONNECTED"):
            self.viol.append(f"C05:is_connected={c.is_connected} in {s}")
        if s == "CONNECTED":
            self.ever_connected = True
        if transitions_only:
            return  # in the middle of a library function: audits of timers/resources belong to callback boundaries
        for hook in self.w.extra_monitors:
            hook(self)

    def key(self) -> Any:
        return (self.prev, tuple(self.trail), self.ever_connected)


class LifeWorld(ConnWorld):
    def __init__(self, **kw: Any) -> None:
        super().__init__(**kw)
        self.extra_monitors: list[Callable[[Monitor], None]] = []
        self.mon = Monitor(self)
        self.loop._after_cb = self.mon
        self.before_hooks: list[Callable[[Any], None]] = []
        self.cb_entry_state: str | None = None
        self.loop._before_cb = self._before_cb
        self.force_called = False
        self.misuse: list[str] = []
        self.armed: str | None = None
        self.tx_seen = 0
        self.delivered: list[Any] = []  # probe subscriber calls: (time, type name, state at delivery)
        self.on_ret: Callable[[str], None] | None = None
        self.ref_closed = False
        self.chunks: list[dict[str, Any]] = []  # one entry per data chunk pushed (atoms, armed fault, state at recv)
        self._recv_idx = 0
        self.send_hooks: list[Callable[[Any, bytes], None]] = []
        self.net.on_socket = self._hook_socket
        # observation point "process_packet call": remember the public state at the start of each dispatch
        self.dispatch_entry_state: str | None = None
        self.dispatches = 0
        from aioesphomeapi.connection import APIConnection

        self._apiconn_cls = APIConnection
        self._orig_process_packet = APIConnection.__dict__.get("process_packet")
        if self._orig_process_packet is not None:
            world = self
            orig = self._orig_process_packet

            def process_packet(conn: Any, t: Any, d: Any) -> None:
                if conn is world.conn:
                    world.dispatch_entry_state = world.state()
                    world.dispatches += 1
                return orig(conn, t, d)

            APIConnection.process_packet = process_packet  # type: ignore[method-assign]
        # observation point "every assignment of the state": the transition relation is also checked on states that exist only
        # inside one loop callback (a log handler, a debugger or a signal handler can see them; nothing else can)
        self._orig_set_state = APIConnection.__dict__.get("_set_connection_state")
        if self._orig_set_state is not None:
            world2 = self
            orig_set = self._orig_set_state

            def _set_connection_state(conn: Any, state: Any) -> None:
                orig_set(conn, state)
                if conn is world2.conn:
                    world2.mon(None, True)

            APIConnection._set_connection_state = _set_connection_state  # type: ignore[method-assign]

    def close(self) -> None:
        if self._orig_process_packet is not None:
            self._apiconn_cls.process_packet = self._orig_process_packet  # type: ignore[method-assign]
        if getattr(self, "_orig_set_state", None) is not None:
            self._apiconn_cls._set_connection_state = self._orig_set_state  # type: ignore[method-assign]
        super().close()

    def _before_cb(self, handle: Any) -> None:
        for h in self.before_hooks:
            h(handle)
        self.cb_entry_state = self.state()

    def _hook_socket(self, s: Any) -> None:
        s.on_recv = self._on_recv
        s.on_send = self._on_send

    def _on_send(self, s: Any, data: bytes) -> None:
        for h in self.send_hooks:
            h(s, data)

    def _on_recv(self, s: Any, item: Any) -> None:
        if isinstance(item, (bytes, bytearray)) and len(item) > 0:
            # chunks are received in the order they were pushed
            pend = [c for c in self.chunks if c["recv_state"] is None]
            if pend:
                pend[0]["recv_state"] = self.state()

    def _on_stop(self, expected: bool) -> None:
        super()._on_stop(expected)
        # the stop callback is user code running in the middle of the close: what it sees must already be consistent
        try:
            flag, st = bool(self.conn.is_connected), self.state()
        except Exception:  # noqa: BLE001
            return
        if flag != (st == "CONNECTED"):
            self.mon.viol.append(f"C05:flag:inside the stop callback is_connected={flag} while the state reads {st}")
        if getattr(self, "stop_raises", False):
            raise RuntimeError("application stop callback failed")

    def state(self) -> str:
        return self.conn.connection_state.name

    def tx_names(self) -> list[str]:
        try:
            return self.sent_names()
        except Exception as e:  # noqa: BLE001
            return [f"<undecodable:{type(e).__name__}>"]

    def snapshot(self) -> Any:
        """Cheap summary used for 'a refused call changes nothing'."""
        return (
            self.state(),
            bool(self.conn.is_connected),
            len(self.net.sockets),
            tuple(s.closed for s in self.net.sockets),
            tuple(len(s.sent) for s in self.net.sockets),
            len(self.loop.live_timers()),
            len(self.stops),
        )


class LifeHarness:
    """Harness for the explorer.  ``oracle`` objects contribute verdict()/finish() clauses."""

    def __init__(
        self,
        *,
        noise: bool,
        seed: str,
        atoms: tuple[str, ...],
        pairs: tuple[tuple[str, str], ...] = (),
        user: tuple[str, ...] = ("start", "finish", "disc", "force", "cancel"),
        misuse: bool = True,
        faults: tuple[str, ...] = ("wf:sync", "wf:async"),
        nd: bool = True,
        keepalive: float = 20.0,
        login: bool = True,
        password: str | None = None,
        expected_name: str | None = None,
        oracles: tuple[Any, ...] = (),
        prune: bool = True,
        horizon: float = 400.0,
        addresses: tuple[str, ...] = ("10.0.0.1",),
        dns_answer: tuple[str, ...] = ("10.0.0.7",),
        legal_only: bool = False,
        etimedout: bool = False,
        subscriber_raises: str | None = None,
        stop_raises: bool = False,
    ) -> None:
        self.noise = noise
        self.seed = seed
        # application code that fails: a subscriber of sensor states that raises the named exception on every call (the exception
        # escapes data_received and asyncio tears the transport down: one more close cause), and a stop callback that raises after
        # it has been recorded
        self.subscriber_raises = subscriber_raises
        self.stop_raises = stop_raises
        self.atoms = tuple(a for a in atoms if (noise or a not in NOISE_ONLY) and not (noise and a in PLAIN_ONLY))
        self.pairs = tuple(
            p
            for p in pairs
            if all((noise or a not in NOISE_ONLY) and not (noise and a in PLAIN_ONLY) for a in p)
        )
        self.user = user
        self.etimedout = etimedout
        self.misuse = misuse
        self.faults = faults
        self.nd = nd
        self.keepalive = keepalive
        self.login = login
        self.password = password
        self.expected_name = expected_name
        self.oracles = oracles
        self.prune = prune
        self.horizon = horizon
        self.addresses = addresses
        self.dns_answer = dns_answer
        self.legal_only = legal_only
        self.can_fp = True

    # --- world construction and seeds -------------------------------------------------------------
    def fresh(self) -> LifeWorld:
        w = LifeWorld(
            noise=self.noise,
            keepalive=self.keepalive,
            login=self.login,
            password=self.password,
            expected_name=self.expected_name,
            addresses=self.addresses,
        )
        for o in self.oracles:
            o.attach(w)
        if self.subscriber_raises is not None:
            exc_cls = {"ValueError": ValueError, "StopIteration": StopIteration, "KeyError": KeyError, "ZeroDivisionError": ZeroDivisionError}[self.subscriber_raises]

            def failing_subscriber(msg: Any) -> None:
                w.note("subscriber_raises", exc_cls.__name__)
                raise exc_cls("application callback failed")

            w.conn.add_message_callback(failing_subscriber, (env.pb().SensorStateResponse,))
        w.stop_raises = self.stop_raises
        w.subscriber_raises = self.subscriber_raises
        s = self.seed
        if s == "init+sibling":
            # another connection object of the same client (same ConnectionParams) is in the middle of its own attempt: its TCP
            # connect is pending (and stays so until its own time-out).  Its socket is kept out of the harness's view.
            from aioesphomeapi.connection import APIConnection

            sib = APIConnection(w.params, None, False, None)
            w.sibling = sib  # type: ignore[attr-defined]
            w.spawn("sibling", sib.start_connection)
            w.drain()
            w.net.background = list(w.net.sockets)  # type: ignore[attr-defined]
            del w.net.sockets[:]
            return w
        if s == "init":
            return w
        w.spawn("start", w.conn.start_connection)
        w.mon()
        w.drain()
        if s == "connecting":
            return w
        w.io_connect(w.sock, 0)
        w.drain()
        if s == "opened":
            return w
        login = self.login
        w.spawn("finish", lambda: w.conn.finish_connection(login=login))
        w.mon()
        w.drain()
        if s == "hswait":
            if not self.noise:
                raise HarnessError("hswait is a noise-only seed")
            return w
        if self.noise:
            w.io_chunk(w.sock, w.noise_handshake_bytes())
            w.drain()
        if s == "hello_sent":
            return w
        if s == "disc_gave_up":
            # hello sent, the device is slow; disconnect() was called, waited its 5 s for the connect phase, gave up (recording that
            # as the connection's error) and has written a DisconnectRequest - while finish_connection() is still waiting
            w.spawn("disc", w.conn.disconnect)
            w.mon()
            w.drain()
            w.advance_next_timer()
            w.drain()
            if w.state() == "CLOSED" or not w.pending("disc"):
                raise HarnessError(f"seed disc_gave_up: state {w.state()}, disc {w.results.get('disc')}")
            return w
        data = w.dframe(w.hello_resp())
        if self.login:
            data += w.dframe(w.connect_resp())
        w.io_chunk(w.sock, data)
        w.drain()
        if w.outcome("finish") != "ok":
            raise HarnessError(f"seed {s}: finish = {w.results.get('finish')}")
        if s == "connected":
            return w
        if s == "pong_due":
            # keepalive pings unanswered; the next timer is the pong deadline
            while True:
                nt = w.loop.next_timer_at()
                names = [fingerprint.cb_name(h._callback) for h in w.loop.live_timers()]
                if nt is None:
                    raise HarnessError("pong_due: no timers")
                first = w.loop.live_timers()[0]
                if "pong" in str(fingerprint.cb_name(first._callback)):
                    return w
                w.loop.advance_to(nt)
                w.drain()
                if w.loop.time() > 1000 + 40 * self.keepalive:
                    raise HarnessError(f"pong_due: pong timer never first: {names}")
        if s == "req_pending":
            req = mk("DeviceInfoRequest")
            rtype = getattr(env.pb(), "DeviceInfoResponse")
            w.spawn("req", lambda: w.conn.send_message_await_response(req, rtype))
            w.mon()
            w.drain()
            return w
        if s == "req_disc_pending":
            req = mk("DeviceInfoRequest")
            rtype = getattr(env.pb(), "DeviceInfoResponse")
            w.spawn("req", lambda: w.conn.send_message_await_response(req, rtype))
            w.mon()
            w.drain()
            w.spawn("disc", w.conn.disconnect)
            w.mon()
            w.drain()
            return w
        if s == "disc_pending":
            w.spawn("disc", w.conn.disconnect)
            w.mon()
            w.drain()
            return w
        raise HarnessError(f"unknown seed {s}")

    # --- alphabet -----------------------------------------------------------------------------------
    def _atom_ok(self, w: LifeWorld, a: str) -> bool:
        if not self.noise:
            return True
        nd = w.ndev
        assert nd is not None
        w._feed_noise(w.sock)  # type: ignore[arg-type]
        if a in ("NH", "NHELLO", "NHE"):
            return nd.handshake_done and nd.r.tx is None and not getattr(w, "_nhello_sent", False)
        if a == "NSHAKE":
            return nd.handshake_done and nd.r.tx is None and getattr(w, "_nhello_sent", False)
        return nd.r.tx is not None

    def enabled(self, w: LifeWorld) -> list[Any]:
        base: list[Any] = []
        for u in USER_ONCE:
            if u in self.user and u not in w.tasks:
                if u == "finish" and w.outcome("start") != "ok":
                    continue
                if u == "finish" and self.legal_only and w.state() != "SOCKET_OPENED":
                    continue
                if u == "start" and self.legal_only and w.state() != "INITIALIZED":
                    continue
                base.append(u)
        if "disc2" in self.user and "disc" in w.tasks and "disc2" not in w.tasks:
            base.append("disc2")  # a second disconnect() while (or after) the first one runs - two parts of an application shutting down
        if "force" in self.user and not w.force_called:
            base.append("force")
        if "cancel" in self.user:
            for name in w.tasks:
                if w.pending(name) and f"cancel:{name}" not in w.misuse:
                    base.append(f"cancel:{name}")
        if self.misuse:
            if "start" in w.tasks and "start2" not in w.tasks:
                base.append("start2")
            if "finish2" not in w.tasks and ("finish" in w.tasks or w.outcome("start") != "ok"):
                base.append("finish2")
        if any(not f.done() for f, _ in w.net.gai_pending):
            base += ["dns:ok", "dns:fail"]
        conn_socks = w.net.connecting()
        if len(conn_socks) > 1:
            # several happy-eyeballs attempts in flight: decide them individually
            for cs in conn_socks:
                base += [f"tcp:ok@{cs.fd}", f"tcp:err@{cs.fd}"]
        s = w.sock
        if s is not None and not s.closed and len(conn_socks) <= 1:
            if s.connect_called is not None and s.connect_result is None:
                base += ["tcp:ok", "tcp:err", "tcp:okrst"]
            elif s.connect_result == 0:
                ok_atoms = [a for a in self.atoms if self._atom_ok(w, a)]
                base += [f"c:{a}" for a in ok_atoms]
                base += [f"c:{a}+{b}" for a, b in self.pairs if a in ok_atoms and self._pair_ok(w, a, b)]
                base += ["eof", "rst"] + (["etimedout"] if self.etimedout else [])
                if w.armed is None:
                    base += list(self.faults)
        # "let time pass until the next timer": also when that timer is far beyond every documented bound (but not the disabled
        # keepalive at 1e6 s) - an operation that only ends then is late, and must be seen to be
        if w.loop.next_timer_at() is not None and w.loop.next_timer_at() <= w.loop.time() + max(self.horizon, 5000.0):
            base.append("time")
        out = list(base)
        if self.nd:
            out += [["nd", b] for b in base if not b.startswith("wf:")]
        return out

    def _pair_ok(self, w: LifeWorld, a: str, b: str) -> bool:
        if not self.noise:
            return True
        if a in ("NH",):
            return b in NEEDS_HANDSHAKE_DONE or b in ("PRE",)
        return self._atom_ok(w, b)

    def cost(self, label: Any) -> int:
        c = 0
        if isinstance(label, list):
            c += 1
            label = label[1]
        if label.startswith("c:") and "+" in label:
            c += 1
        if label.startswith("wf:"):
            c += 1
        if label in ("start2", "finish2"):
            c += 1
        return c

    # --- transitions ----------------------------------------------------------------------------------
    def apply(self, w: LifeWorld, label: Any) -> None:
        nd = False
        if isinstance(label, list):
            nd = True
            label = label[1]
        w.note("ev", label if not nd else "nd:" + label)
        kind = "user"
        conn = w.conn
        if label == "start":
            w.spawn("start", conn.start_connection)
        elif label == "finish":
            login = self.login
            w.spawn("finish", lambda: conn.finish_connection(login=login))
        elif label == "disc":
            w.spawn("disc", conn.disconnect)
        elif label == "disc2":
            w.spawn("disc2", conn.disconnect)
        elif label == "force":
            w.force_called = True
            try:
                conn.force_disconnect()
            except Exception as e:  # noqa: BLE001
                w.note("force_raised", type(e).__name__)
        elif label.startswith("cancel:"):
            w.misuse.append(label)
            w.cancel(label[7:])
        elif label in ("start2", "finish2"):
            before = w.snapshot()
            if label == "start2":
                w.spawn("start2", conn.start_connection)
            else:
                login = self.login
                w.spawn("finish2", lambda: conn.finish_connection(login=login))
            out = w.outcome(label)
            after = w.snapshot()
            if out != "exc:RuntimeError":
                w.mon.viol.append(f"C05:reuse:{label} was not refused synchronously (outcome {out})")
            elif before != after:
                w.mon.viol.append(f"C05:reuse:{label} refused but changed the connection {before}->{after}")
        elif label == "tcp:ok":
            kind = "io"
            w.io_connect(w.sock, 0)
        elif label == "tcp:err":
            kind = "io"
            w.io_connect(w.sock, errno.ECONNREFUSED)
        elif label.startswith("tcp:ok@") or label.startswith("tcp:err@"):
            kind = "io"
            fd = int(label.split("@")[1])
            cs = next(x for x in w.net.sockets if x.fd == fd)
            w.io_connect(cs, 0 if label.startswith("tcp:ok@") else errno.ECONNREFUSED)
        elif label in ("dns:ok", "dns:fail"):
            from .simnet import v4

            for fut, (host, port) in w.net.gai_pending:
                if not fut.done():
                    if label == "dns:ok":
                        fut.set_result([v4(a, port) for a in self.dns_answer])
                    else:
                        fut.set_exception(OSError(-2, "Name or service not known"))
            w.note("dns", label)
        elif label == "tcp:okrst":
            kind = "io"
            w.sock.peer_gone = True  # connect succeeds, then the peer is gone: getpeername() fails with ENOTCONN
            w.io_connect(w.sock, 0)
        elif label.startswith("c:"):
            kind = "io"
            data = b""
            for a in label[2:].split("+"):
                data += ATOMS[a](w)
                if a in ("NH", "NHELLO", "NHE"):
                    w._nhello_sent = True  # type: ignore[attr-defined]
            w.chunks.append({"atoms": label[2:].split("+"), "armed": w.armed, "recv_state": None})
            w.io_chunk(w.sock, data)
        elif label == "eof":
            kind = "io"
            w.io_eof(w.sock)
        elif label == "rst":
            kind = "io"
            w.io_rst(w.sock)
        elif label == "etimedout":
            # the kernel gave up retransmitting: recv() raises the builtin TimeoutError (the same class asyncio.TimeoutError is)
            kind = "io"
            w.sock.inbox.append(TimeoutError(errno.ETIMEDOUT, "Connection timed out"))
            w.note("io_etimedout", w.sock.fd)
        elif label == "wf:sync":
            w.armed = label
            w.write_fault = OSError(errno.EPIPE, "Broken pipe (armed)")
            return
        elif label == "wf:rt":
            # the transport refuses the next write with RuntimeError (uvloop: "the handler is closed"); the library lists it as a write error
            w.armed = label
            w.write_fault = RuntimeError("unable to perform operation on <TCPTransport closed=True>; the handler is closed (armed)")
            return
        elif label == "wf:async":
            w.armed = label
            w.sock.send_error = OSError(errno.EPIPE, "Broken pipe (armed)")
            return
        elif label == "time":
            kind = "time"
            w.drain()  # time only passes while the loop is idle: pending wake-ups run at the current instant
            w.advance_next_timer()
        else:
            raise HarnessError(f"unknown label {label}")
        w.mon()
        if not nd:
            w.drain()
        elif kind == "io":
            w.step()
        for o in self.oracles:
            o.after_label(w, label)

    # --- verdicts ---------------------------------------------------------------------------------------
    def verdict(self, w: LifeWorld) -> list[str]:
        v = list(w.mon.viol)
        for o in self.oracles:
            v += o.verdict(w)
        return v

    def finish(self, w: LifeWorld) -> list[str]:
        w.drain()
        w.note("finish-audit")
        w.run_timers(w.loop.time() + self.horizon)
        v = list(w.mon.viol)
        for o in self.oracles:
            v += o.verdict(w)
            v += o.finish(w)
        return v

    def outcome(self, w: LifeWorld) -> str:
        return ">".join(w.mon.trail) + "|" + ",".join(f"{k}={w.outcome(k)}" for k in sorted(w.tasks)) + f"|stops={[e for _, e, _ in w.stops]}"

    def tags(self, w: LifeWorld) -> list[str]:
        t = [f"reached:{s}" for s in set(w.mon.trail)]
        if w.stops:
            t.append("on_stop")
        return t

    def observe(self, w: LifeWorld) -> Any:
        return list(w.log)

    def fingerprint(self, w: LifeWorld) -> Any:
        if not self.prune or not self.can_fp:
            return None
        try:
            c = fingerprint.Canon(w.loop)
            fp = (
                c.obj(w.conn),
                fingerprint.loop_canon(w.loop),
                tuple((n, fingerprint.task_point(t)) for n, t in sorted(w.tasks.items())),
                tuple((n, r[0], type(r[1]).__name__) for n, r in sorted(w.results.items())),
                tuple(c(s) for s in w.net.sockets),
                w.force_called,
                tuple(w.misuse),
                w.armed,
                w.write_fault is not None,
                w.sock.send_error is not None if w.sock else None,
                (w.ndev.r.tx.n if w.ndev.r.tx else -1, w.ndev.r.rx.n if w.ndev.r.rx else -1, getattr(w, "_nhello_sent", False))
                if w.ndev
                else None,
                w.mon.key(),
                tuple(e for _, e, _ in w.stops),
                tuple(o.key(w) for o in self.oracles),
            )
            return hash(fp)
        except fingerprint.CannotCanon:
            self.can_fp = False
            return None

    def close(self, w: LifeWorld) -> None:
        w.close()


class Oracle:
    """Base class of per-property oracles plugged into LifeHarness."""

    def attach(self, w: LifeWorld) -> None:
        pass

    def after_label(self, w: LifeWorld, label: str) -> None:
        pass

    def verdict(self, w: LifeWorld) -> list[str]:
        return []

    def finish(self, w: LifeWorld) -> list[str]:
        return []

    def key(self, w: LifeWorld) -> Any:
        return None
