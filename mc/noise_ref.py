"""Noise_NNpsk0_25519_ChaChaPoly_SHA256 responder written from the Noise specification (rev 34),
plus the ESPHome outer framing.  Does not import the `noise` package nor any aioesphomeapi code.

  NNpsk0:   -> psk, e        <- e, ee
"""

from __future__ import annotations

import hashlib
import hmac
import struct

from cryptography.exceptions import InvalidTag
from cryptography.hazmat.primitives.asymmetric.x25519 import X25519PrivateKey, X25519PublicKey
from cryptography.hazmat.primitives.ciphers.aead import ChaCha20Poly1305

PROTOCOL_NAME = b"Noise_NNpsk0_25519_ChaChaPoly_SHA256"
PROLOGUE = b"NoiseAPIInit\x00\x00"


class NoiseRefError(Exception):
    pass


def _hmac(key: bytes, data: bytes) -> bytes:
    return hmac.new(key, data, hashlib.sha256).digest()


def hkdf(ck: bytes, ikm: bytes, n: int) -> list[bytes]:
    temp = _hmac(ck, ikm)
    out = []
    prev = b""
    for i in range(1, n + 1):
        prev = _hmac(temp, prev + bytes([i]))
        out.append(prev)
    return out


class CipherState:
    def __init__(self, k: bytes | None = None) -> None:
        self.k = k
        self.n = 0

    def _nonce(self) -> bytes:
        return b"\x00\x00\x00\x00" + struct.pack("<Q", self.n)

    def encrypt(self, ad: bytes, pt: bytes) -> bytes:
        if self.k is None:
            return pt
        ct = ChaCha20Poly1305(self.k).encrypt(self._nonce(), pt, ad)
        self.n += 1
        return ct

    def decrypt(self, ad: bytes, ct: bytes) -> bytes:
        """Raises InvalidTag and leaves n unchanged on failure (spec: n only advances on success)."""
        if self.k is None:
            return ct
        pt = ChaCha20Poly1305(self.k).decrypt(self._nonce(), ct, ad)
        self.n += 1
        return pt


class SymmetricState:
    def __init__(self) -> None:
        name = PROTOCOL_NAME
        self.h = name.ljust(32, b"\x00") if len(name) <= 32 else hashlib.sha256(name).digest()
        self.ck = self.h
        self.cs = CipherState()

    def mix_hash(self, data: bytes) -> None:
        self.h = hashlib.sha256(self.h + data).digest()

    def mix_key(self, ikm: bytes) -> None:
        self.ck, temp_k = hkdf(self.ck, ikm, 2)
        self.cs = CipherState(temp_k[:32])

    def mix_key_and_hash(self, ikm: bytes) -> None:
        self.ck, temp_h, temp_k = hkdf(self.ck, ikm, 3)
        self.mix_hash(temp_h)
        self.cs = CipherState(temp_k[:32])

    def encrypt_and_hash(self, pt: bytes) -> bytes:
        ct = self.cs.encrypt(self.h, pt)
        self.mix_hash(ct)
        return ct

    def decrypt_and_hash(self, ct: bytes) -> bytes:
        pt = self.cs.decrypt(self.h, ct)
        self.mix_hash(ct)
        return pt

    def split(self) -> tuple[CipherState, CipherState]:
        k1, k2 = hkdf(self.ck, b"", 2)
        return CipherState(k1[:32]), CipherState(k2[:32])


class Responder:
    """NNpsk0 responder.  ``eph`` fixes the ephemeral private key (32 bytes) for reproducibility."""

    def __init__(self, psk: bytes, eph: bytes, prologue: bytes = PROLOGUE) -> None:
        if len(psk) != 32:
            raise ValueError("psk must be 32 bytes")
        self.psk = psk
        self.ss = SymmetricState()
        self.ss.mix_hash(prologue)
        self.e = X25519PrivateKey.from_private_bytes(eph)
        self.re: X25519PublicKey | None = None
        self.rx: CipherState | None = None  # initiator -> responder
        self.tx: CipherState | None = None  # responder -> initiator

    def read_message_1(self, msg: bytes) -> bytes:
        """-> psk, e   (+ payload).  Raises InvalidTag if the initiator holds a different psk."""
        ss = self.ss
        ss.mix_key_and_hash(self.psk)
        if len(msg) < 32:
            raise NoiseRefError("message 1 too short")
        re_pub = msg[:32]
        self.re = X25519PublicKey.from_public_bytes(re_pub)
        ss.mix_hash(re_pub)
        ss.mix_key(re_pub)  # psk handshakes: e is also mixed into the key
        return ss.decrypt_and_hash(msg[32:])

    def write_message_2(self, payload: bytes = b"") -> bytes:
        """<- e, ee   (+ payload); afterwards the transport ciphers are available."""
        ss = self.ss
        assert self.re is not None
        from cryptography.hazmat.primitives import serialization

        e_pub = self.e.public_key().public_bytes(
            serialization.Encoding.Raw, serialization.PublicFormat.Raw
        )
        ss.mix_hash(e_pub)
        ss.mix_key(e_pub)
        ss.mix_key(self.e.exchange(self.re))
        ct = ss.encrypt_and_hash(payload)
        c1, c2 = ss.split()
        self.rx, self.tx = c1, c2
        return e_pub + ct


# --------------------------------------------------------------------------------------
# ESPHome outer framing
# --------------------------------------------------------------------------------------
def outer(body: bytes) -> bytes:
    if len(body) > 0xFFFF:
        raise ValueError("frame too long for 16-bit length")
    return b"\x01" + struct.pack(">H", len(body)) + body


def split_outer(stream: bytes) -> tuple[list[bytes], bytes]:
    """Return (complete frame bodies, rest).  Raises NoiseRefError on a wrong marker byte."""
    out = []
    pos = 0
    while len(stream) - pos >= 3:
        if stream[pos] != 1:
            raise NoiseRefError(f"bad marker {stream[pos]:#x} at {pos}")
        ln = struct.unpack(">H", stream[pos + 1 : pos + 3])[0]
        if len(stream) - pos - 3 < ln:
            break
        out.append(stream[pos + 3 : pos + 3 + ln])
        pos += 3 + ln
    return out, stream[pos:]


def inner(msg_type: int, payload: bytes) -> bytes:
    return struct.pack(">HH", msg_type, len(payload)) + payload


class NoiseDevice:
    """The device side of one ESPHome Noise session (responder + framing)."""

    def __init__(self, psk: bytes, eph: bytes, name: str | None = "dev", mac: str | None = None) -> None:
        self.r = Responder(psk, eph)
        self.name = name
        self.mac = mac
        self.client_buf = b""
        self.client_frames: list[bytes] = []  # outer frame bodies received from the client
        self.handshake_done = False
        self.handshake_error: str | None = None
        self.received: list[tuple[int, bytes]] = []  # decrypted application messages from the client

    # --- server -> client ---------------------------------------------------------------
    def hello_frame(self) -> bytes:
        body = b"\x01"
        if self.name is not None:
            body += (self.name if isinstance(self.name, bytes) else self.name.encode()) + b"\x00"  # bytes: a name that is not text
            if self.mac is not None:
                body += self.mac.encode() + b"\x00"
        return outer(body)

    def handshake_frame(self) -> bytes:
        if self.handshake_error is not None:
            return outer(b"\x01" + self.handshake_error.encode())
        return outer(b"\x00" + self.r.write_message_2())

    def data_frame(self, msg_type: int, payload: bytes) -> bytes:
        assert self.r.tx is not None
        return outer(self.r.tx.encrypt(b"", inner(msg_type, payload)))

    # --- client -> server ---------------------------------------------------------------
    def feed(self, data: bytes) -> None:
        """Consume bytes written by the client.  Raises on any format or authentication failure."""
        self.client_buf += data
        frames, self.client_buf = split_outer(self.client_buf)
        for body in frames:
            idx = len(self.client_frames)
            self.client_frames.append(body)
            if idx == 0:
                if body != b"":
                    raise NoiseRefError(f"client hello frame must be empty, got {body.hex()}")
            elif idx == 1:
                if not body or body[0] != 0:
                    raise NoiseRefError("client handshake frame must start with 0x00")
                try:
                    payload = self.r.read_message_1(body[1:])
                except InvalidTag:
                    self.handshake_error = "Handshake MAC failure"
                    continue
                if payload != b"":
                    raise NoiseRefError("unexpected handshake payload")
                self.handshake_done = True
            else:
                if self.r.rx is None:
                    raise NoiseRefError("application frame before the handshake completed")
                pt = self.r.rx.decrypt(b"", body)  # InvalidTag = nonce out of sequence or forged
                if len(pt) < 4:
                    raise NoiseRefError("inner frame shorter than its header")
                typ, ln = struct.unpack(">HH", pt[:4])
                if ln != len(pt) - 4:
                    raise NoiseRefError(f"inner length {ln} != payload length {len(pt) - 4}")
                self.received.append((typ, pt[4:]))
