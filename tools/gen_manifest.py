#!/usr/bin/env python3
"""Regenerate MANIFEST.json from the table below (keeps it valid at all times)."""

from __future__ import annotations

import json
import os
import sys

HERE = os.path.dirname(os.path.dirname(os.path.abspath(__file__)))
PY = "/venv/bin/python"

BASE = (
    "CPython 3.12 asyncio (stock selector loop code), protobuf runtime, `cryptography` primitives, "
    "the checker's own environment model (mc/vloop.py, mc/simnet.py) and its independent codecs "
    "(mc/wire.py, mc/noise_ref.py, mc/protoparse.py)"
)

# id -> (category, engine, technique, level text, level note, design ref)
CHECKS: dict[str, tuple[str, str, str, str, str, str]] = {
    "C05": (
        "model_checking",
        "vloop-explorer",
        "stateless explicit-state exploration of the real APIConnection (choice-sequence DFS with prefix replay, "
        "deviation bounding, fingerprint pruning); state relation checked after every event-loop callback",
        "Every sequence of user calls, device chunks, faults and timer expiries up to the depth/deviation bound from each "
        "seeded lifecycle state is executed against the real code; the forward-only relation and is_connected<=>CONNECTED "
        "are checked after every callback, so same-turn undo of a close cannot hide between two callbacks.",
        BASE + "; bounds as reported in the evidence",
        "DESIGN.md §3 C05",
    ),
}

CHECKS.update({
    "C01": (
        "model_checking",
        "enumerator",
        "explicit-state search over (stream, bytes delivered) states of the real APIPlaintextFrameHelper: every p->q chunk "
        "transition x chunk type is executed and must land on the canonical one-call state (state-merging induction), plus direct "
        "enumeration of all 2^(n-1) segmentations of short streams and all <=2-cut segmentations; oracle = independent framer",
        "For each stream of the frame alphabet every (prefix p, chunk p..q, buffer type) transition of the real helper is executed; "
        "landing on the one-call state with exactly the frames ending in (p,q] delivered proves, by induction, every segmentation "
        "over the cut set with any mix of buffer types. Short streams are additionally cut in all 2^(n-1) ways.",
        BASE + "; the helper has no state outside its slots (only the induction relies on this)",
        "DESIGN.md §3 C01",
    ),
    "C02": (
        "exploration",
        "enumerator",
        "exhaustive enumeration of type ids / payload lengths / batch shapes and a 66k-frame write history through the real "
        "write path, decoded by an independent plaintext decoder and an independent Noise responder (own nonce counter)",
        "Every write_packets/send_messages call over the stated alphabet is decoded by codecs that share no code with the client; "
        "the Noise receive counter of the reference only advances by one per frame, so any nonce gap or repeat fails authentication.",
        BASE,
        "DESIGN.md §3 C02",
    ),
    "C13": (
        "exploration",
        "enumerator",
        "exhaustive three-way comparison (api.proto text parsed independently / compiled descriptors / library id tables) over all "
        "messages, fields, enums and options, plus an API-surface sweep of every public APIClient method in a simulated session",
        "The domain is finite (123 ids, 135 messages, 49 public methods x 4 negotiated versions) and is enumerated completely.",
        BASE,
        "DESIGN.md §3 C13",
    ),
})

CHECKS.update({
    "C07": (
        "model_checking",
        "vloop-explorer",
        "stateless explicit-state exploration of the real APIConnection from seeded lifecycle states; a reference model of the "
        "stop-callback contract (count and argument) is evaluated inside every on_stop call and at the end of every execution",
        "All sequences of close causes (peer request, disconnect(), force_disconnect(), EOF, RST, sync/async write error, ping "
        "timeout, protocol error, cancel) up to the depth bound, including same-turn orderings and two frames per chunk, are executed; "
        "the callback count must equal 'ever CONNECTED' and its argument must match the reference outside a stated ambiguous zone.",
        BASE,
        "DESIGN.md §3 C07, §9",
    ),
    "C08": (
        "fault_enumeration",
        "vloop-explorer",
        "crash-point enumeration on the real code: every close cause injected before every single event-loop callback of canonical "
        "scenarios (singly and in pairs) plus bounded schedule exploration; auditor lists sockets/transports/timers/tasks after each close",
        "The harness owns the loop, so it can enumerate every callback boundary as an injection point and list every timer, task and "
        "socket afterwards; sends and deliveries are judged at the moment they occur against the state at dispatch start.",
        BASE,
        "DESIGN.md §3 C08",
    ),
})

CHECKS.update({
    "C09": (
        "fault_enumeration",
        "vloop-explorer",
        "fault enumeration on the real code under a virtual clock: bounded exploration of fault/schedule sequences (resolver, multi-address "
        "TCP, silence, garbage, resets, write failures, cancellations) with a hang/late/unclassified auditor, plus a first-cause sweep "
        "(state x fatal cause x follow-up event x same-turn/next-turn) compared differentially and against the error classes the properties name",
        "Every execution is run to a virtual-time horizon, so 'never hangs' and 'within its bound' are decided, not sampled; the "
        "first-cause clause is checked for every (seed state, F1, F2, ordering) combination of the stated alphabets.",
        BASE,
        "DESIGN.md §3 C09",
    ),
})

CHECKS.update({
    "C11": (
        "model_checking",
        "vloop-explorer",
        "stateless explicit-state exploration of up to four outstanding request-response calls on the real connection against a "
        "reference waiter per call that consumes device messages and timer expiries in loop processing order; leftover audit "
        "(handler table, waiter set, timers) at every quiescent state",
        "All interleavings of call starts, matching/non-matching/stop messages (also two per chunk), exact timeouts under a virtual clock, "
        "cancellations and closes up to the depth/deviation bound are executed; every call's result is compared with its reference and "
        "the registration tables must equal baseline + outstanding calls whenever the loop is quiet.",
        BASE,
        "DESIGN.md §3 C11, §9",
    ),
})

CHECKS.update({
    "C10": (
        "model_checking",
        "vloop-explorer",
        "exhaustive enumeration of message-arrival schedules under a controlled virtual clock (all sets of <=2/3 arrivals on the K/4 "
        "grid over 12 K, every message kind, both processing orders at every tie, periodic traffic over 30 K, six dyadic keepalive "
        "values plus the library default and a non-dyadic one) on the real connection, compared with a reference keepalive model",
        "The clock is owned by the checker, so exact ping instants and the exact instant and cause of the close are compared for "
        "every schedule of the bounded family, including arrivals that coincide with a tick or with the deadline in both orders.",
        BASE,
        "DESIGN.md §3 C10, §9",
    ),
})

CHECKS.update({
    "C12": (
        "model_checking",
        "enumerator",
        "exhaustive enumeration on the real connection: (a) every type id 0..65535 (+large varints) x 4 payload shapes through plaintext "
        "and Noise sessions with a probe on every class and full state-fingerprint equality for undefined ids; (b) every "
        "subscribe/unsubscribe/dispatch history up to depth 5/6 over three handlers x 125 re-entrant body assignments against snapshot "
        "semantics; (c) every sequence of <=3 peer requests/traffic frames, in one chunk and in separate chunks",
        "The id space and the bounded history space are enumerated completely; the history oracle replays the observed call order on a "
        "reference registration set, so it is independent of set iteration order.",
        BASE,
        "DESIGN.md §3 C12",
    ),
})

CHECKS.update({
    "C06": (
        "exploration",
        "enumerator",
        "exhaustive enumeration of device answers x client configurations (6 majors x 4 minors x 3 names x expected x login x password x "
        "verdict x 6 response orders/chunkings, plaintext and Noise with 4 hello-frame names) through the real APIClient.connect(), "
        "compared with a reference accept predicate; error class and cleanup obligations checked for every rejection",
        "The accept/reject boundary is finite and enumerated completely; each run owns the loop so 'stop callback never invoked, also not "
        "later' is checked by draining and advancing virtual time.",
        BASE,
        "DESIGN.md §3 C06",
    ),
})

CHECKS.update({
    "C03": (
        "exploration",
        "enumerator",
        "exhaustive enumeration of chunkings of the server byte stream (one chunk, byte-wise, every single cut, all pairs of cuts, all "
        "2^(k-1) segmentations of a window sliding over every frame boundary) x announced-name/expected-name combinations, each on a fresh "
        "Noise session of the real APIConnection against a responder written from the Noise specification",
        "Every execution is a real handshake with fresh keys against an independent responder; readiness, deliveries after every chunk "
        "and the client's own frames (decrypted by the responder) are compared with what the responder really sent.",
        BASE,
        "DESIGN.md §3 C03",
    ),
    "C04": (
        "fault_enumeration",
        "enumerator",
        "fault enumeration over a recorded honest session: every byte position x {0x01,0x80,0xFF} (all 8 bits + 0xFF in thorough), every "
        "truncation length, duplicate/drop/swap of every frame, every wrong marker at every frame start, every selector byte, error "
        "frames, name mismatch, different key, framing mismatches and 70 key strings; oracle = reference receiver with its own cipher state",
        "The corruption space of the session is enumerated completely; deliveries must equal the reference receiver's list (always a "
        "byte-exact prefix of what was sent) and the error class of the first complete failing frame is asserted on the pending operation.",
        BASE,
        "DESIGN.md §3 C04",
    ),
})

CHECKS.update({
    "C14": (
        "exploration",
        "enumerator",
        "exhaustive enumeration: every model enum/class against api.proto text and descriptors through an independent pairing table; "
        "every paired wire message x every field x per-type value alphabet (singly on empty and populated messages, and all pairs of fields), "
        "serialised, parsed and converted by the real from_pb and compared with expectations computed from the wire values alone; float32 "
        "grid of all 256 exponents x boundary mantissas through every float field; to_dict/from_dict round trip of every value produced",
        "The structural domain (29 enums, 69 message/model pairs) is finite and fully enumerated; the value domain is covered over the stated "
        "alphabets completely (one-at-a-time and pairwise), floats over every exponent.",
        BASE,
        "DESIGN.md §3 C14",
    ),
})

CHECKS.update({
    "C15": (
        "exploration",
        "enumerator",
        "exhaustive enumeration of every command method x every {omitted, falsy, typical} assignment of its optional arguments (3^k, "
        "light_command 3^12 = 531441 included) x extreme values x 7 negotiated API versions around the legacy thresholds on a connected "
        "simulated session; the written frame is decoded by the independent codec and compared as a whole message with a hand-written "
        "specification (argument -> field, presence flag from the descriptors, unit conversion, legacy encodings)",
        "The argument-subset space of each command is finite and enumerated completely; whole-message equality makes 'every other "
        "field at its default' part of every comparison.",
        BASE,
        "DESIGN.md §3 C15",
    ),
})

CHECKS.update({
    "C17": (
        "exploration",
        "enumerator",
        "exhaustive enumeration on a real connected APIClient: every state type and every sequence of <=2 (all types) / <=3 messages delivered "
        "as real frames; every interleaving of bounded multi-chunk camera streams over up to 3 keys (multinomial, incl. unfinished images); "
        "every sequence of <=3 messages x unsubscribe position (between chunks and from inside a handler) for each subscription kind; every "
        "voice-assistant request sequence up to depth 3/4 x start-handler behaviour x optional handlers x unsubscribe position",
        "All interleavings of the bounded streams are executed against the real client; callbacks are compared with a reference computed "
        "from the stream, converted values with C14's oracle.",
        BASE,
        "DESIGN.md §3 C17",
    ),
})

CHECKS.update({
    "C16": (
        "model_checking",
        "vloop-explorer",
        "stateless explicit-state exploration of sets of <=3 concurrent BLE operations (read, descriptor read, write, descriptor write, start-notify, "
        "device connect with timeout, pair, unpair, clear-cache, disconnect, get-services) on a real connected APIClient over 2 addresses x 2 handles "
        "against one reference state machine per operation that consumes device messages and timer expiries in loop processing order; handler-table "
        "and timer audit at every quiescent state",
        "Every order (depth/deviation bounded; two frames per chunk and undrained deliveries included) of matching responses, same-address-other-handle and "
        "other-address-same-handle responses, GATT errors, connection-state changes, notify data, timer expiries and connection loss is executed; outcome, "
        "completion instant, frames written, callbacks and subscriptions left are compared with the reference.",
        BASE,
        "DESIGN.md §3 C16",
    ),
})

CHECKS.update({
    "C19": (
        "model_checking",
        "vloop-explorer",
        "stateless explicit-state exploration (prefix replay, deviation bounding, fingerprint pruning) of one real APIClient over several consecutive "
        "sessions: sequences of start/finish/connect/disconnect/force-disconnect/command/subscription/request calls (each its own task, also issued "
        "before the loop drained) and device/fault events, against a reference session automaton driven only by call returns and the stop callback; "
        "every execution ends with a probe (disconnect, full reconnect, command) that detects a wedged client",
        "All call/event sequences up to the depth and deviation bound from eight seeded lifecycle states are executed on the real client; acceptance and "
        "refusal of every call is compared with the reference at the moment it is issued.",
        BASE,
        "DESIGN.md §3 C19, §9",
    ),
})

CHECKS.update({
    "C18": (
        "model_checking",
        "vloop-explorer",
        "stateless explicit-state exploration (prefix replay, deviation bounding, fingerprint pruning) of the real ReconnectLogic + APIClient + "
        "APIConnection under a virtual clock with a fake zeroconf: start()/stop() tasks, TCP and handshake outcomes, session endings, mDNS records "
        "delivered to registered listeners, 'advance to next timer' and 'let 0.5 s pass'; a reference justifier decides for every attempt start "
        "(socket creation) whether a clause of the property justifies it at that instant; plus linear runs reading the whole back-off table (13 "
        "consecutive failures x 6 failure classes)",
        "All event sequences up to the depth/deviation bound from 21 seeded manager states (plus 7 directed histories, four of them with the application hooks handed over as method / lambda / partial / callable object) are executed on the real code; at-most-one-socket, "
        "justified attempt instants, callback alternation/counts and the stopped-state obligations are checked after every step and at the end.",
        BASE,
        "DESIGN.md §3 C18, §9",
    ),
})

CHECKS.update({
    "C20": (
        "model_checking",
        "enumerator",
        "explicit-state breadth-first search over ZeroconfManager operation histories (construct with nothing/async/sync instance, set instance, get, "
        "resolve ok/error/cancelled/creation failure, close) on the real code with canonical-state deduplication and ownership invariants evaluated "
        "in every state; plus exhaustive enumeration of address lists (length 1-3/4 over 7 address forms) x per-host mDNS answers x per-host OS "
        "answers through the real async_resolve_host with poisoned lookup fakes, compared with a reference resolver",
        "The resolution matrix is finite and enumerated completely for the stated list lengths; ownership histories are explored breadth-first "
        "to the stated depth with every reachable canonical state visited.",
        BASE,
        "DESIGN.md §3 C20",
    ),
})

NOT_APPLICABLE: dict[str, str] = {}


def main() -> int:
    props = [json.loads(l) for l in open(os.path.join(HERE, "properties.jsonl"), encoding="utf-8")]
    ids = [p["id"] for p in props]
    checks = []
    for pid in ids:
        if pid not in CHECKS:
            continue
        cat, engine, tech, text, note, ref = CHECKS[pid]
        checks.append(
            {
                "property_id": pid,
                "quick_cmd": f"{PY} -B -m mc.run {pid} --tier quick",
                "thorough_cmd": f"{PY} -B -m mc.run {pid} --tier thorough",
                "evidence_file": f"/verif/evidence/{pid}.json",
                "replay_cmd_template": f"{PY} -B -m mc.run {pid} --replay {{path}}",
                "engine": engine,
                "level_claimed": {"category": cat, "text": text, "design_ref": ref},
                "level_note": note,
                "technique": tech,
            }
        )
    na = []
    for pid in ids:
        if pid in CHECKS:
            continue
        na.append(
            {
                "property_id": pid,
                "reason": NOT_APPLICABLE.get(pid, "check not built yet (work in progress); will be claimed once its harness exists"),
            }
        )
    man = {
        "version": 1,
        "setup_cmd": "true",
        "hooks": {
            "guard": "AIOESPHOMEAPI_VERIF",
            "enable": "no source hooks are needed: the checks reach the code through asyncio/socket/module seams only",
            "baseline_off_cmd": "cd /repo && /venv/bin/python -m pytest -ra -q -p no:cacheprovider --timeout=900 --continue-on-collection-errors",
            "source_commits": [],
            "add_only": True,
        },
        "engines": [
            {
                "name": "vloop-explorer",
                "path": "mc/explore.py",
                "serves_properties": sorted(p for p, c in CHECKS.items() if c[1] == "vloop-explorer"),
                "kind_free_text": "hand-written stateless explicit-state explorer: enumerates every bounded sequence of environment "
                "choices (user calls, device bytes, faults, timer expiries, same-turn orderings) and executes each on the real "
                "code under the real asyncio selector loop with fake selector/sockets/clock (mc/vloop.py)",
            },
            {
                "name": "enumerator",
                "path": "mc/props",
                "serves_properties": sorted(p for p, c in CHECKS.items() if c[1] == "enumerator"),
                "kind_free_text": "exhaustive enumeration of finite input/configuration alphabets pushed through the real code and "
                "compared with independent reference codecs/models",
            },
        ],
        "checks": checks,
        "not_applicable": na,
        "notes": "All checks run the current working tree of /repo (VERIF_REPO overrides) in a fresh interpreter with a private, "
        "empty bytecode cache. Exit 2 = harness error (never a verdict).",
    }
    with open(os.path.join(HERE, "MANIFEST.json"), "w", encoding="utf-8") as fh:
        json.dump(man, fh, indent=1)
        fh.write("\n")
    try:
        import jsonschema

        jsonschema.validate(man, json.load(open("/root/.vp/MANIFEST.schema.json")))
        print("MANIFEST.json valid;", len(checks), "checks,", len(na), "not_applicable")
    except ImportError:
        print("jsonschema not available; wrote MANIFEST.json unvalidated")
    return 0


if __name__ == "__main__":
    sys.exit(main())
