#!/usr/bin/env python3
"""Regenerate MANIFEST.json from the table below (keeps it valid at all times)."""

from __future__ import annotations

import json
import os
import sys

HERE = os.path.dirname(os.path.dirname(os.path.abspath(__file__)))
PY = "/venv/bin/python"

BASE = (
    "CPython 3.12 asyncio (stock selector loop code), protobuf runtime, `cryptography` primitives, "
    "the checker's own environment model (mc/vloop.py, mc/simnet.py) and its independent codecs "
    "(mc/wire.py, mc/noise_ref.py, mc/protoparse.py)"
)

# id -> (category, engine, technique, level text, level note, design ref)
CHECKS: dict[str, tuple[str, str, str, str, str, str]] = {
    "C05": (
        "model_checking",
        "vloop-explorer",
        "stateless explicit-state exploration of the real APIConnection (choice-sequence DFS with prefix replay, "
        "deviation bounding, fingerprint pruning); state relation checked after every event-loop callback",
        "Every sequence of user calls, device chunks, faults and timer expiries up to the depth/deviation bound from each "
        "seeded lifecycle state is executed against the real code; the forward-only relation and is_connected<=>CONNECTED "
        "are checked after every callback, so same-turn undo of a close cannot hide between two callbacks.",
        BASE + "; bounds as reported in the evidence",
        "DESIGN.md §3 C05",
    ),
}

NOT_APPLICABLE: dict[str, str] = {}


def main() -> int:
    props = [json.loads(l) for l in open(os.path.join(HERE, "properties.jsonl"), encoding="utf-8")]
    ids = [p["id"] for p in props]
    checks = []
    for pid in ids:
        if pid not in CHECKS:
            continue
        cat, engine, tech, text, note, ref = CHECKS[pid]
        checks.append(
            {
                "property_id": pid,
                "quick_cmd": f"{PY} -B -m mc.run {pid} --tier quick",
                "thorough_cmd": f"{PY} -B -m mc.run {pid} --tier thorough",
                "evidence_file": f"/verif/evidence/{pid}.json",
                "replay_cmd_template": f"{PY} -B -m mc.run {pid} --replay {{path}}",
                "engine": engine,
                "level_claimed": {"category": cat, "text": text, "design_ref": ref},
                "level_note": note,
                "technique": tech,
            }
        )
    na = []
    for pid in ids:
        if pid in CHECKS:
            continue
        na.append(
            {
                "property_id": pid,
                "reason": NOT_APPLICABLE.get(pid, "check not built yet (work in progress); will be claimed once its harness exists"),
            }
        )
    man = {
        "version": 1,
        "setup_cmd": "true",
        "hooks": {
            "guard": "AIOESPHOMEAPI_VERIF",
            "enable": "no source hooks are needed: the checks reach the code through asyncio/socket/module seams only",
            "baseline_off_cmd": "cd /repo && /venv/bin/python -m pytest -ra -q -p no:cacheprovider --timeout=900 --continue-on-collection-errors",
            "source_commits": [],
            "add_only": True,
        },
        "engines": [
            {
                "name": "vloop-explorer",
                "path": "mc/explore.py",
                "serves_properties": sorted(p for p, c in CHECKS.items() if c[1] == "vloop-explorer"),
                "kind_free_text": "hand-written stateless explicit-state explorer: enumerates every bounded sequence of environment "
                "choices (user calls, device bytes, faults, timer expiries, same-turn orderings) and executes each on the real "
                "code under the real asyncio selector loop with fake selector/sockets/clock (mc/vloop.py)",
            },
            {
                "name": "enumerator",
                "path": "mc/props",
                "serves_properties": sorted(p for p, c in CHECKS.items() if c[1] == "enumerator"),
                "kind_free_text": "exhaustive enumeration of finite input/configuration alphabets pushed through the real code and "
                "compared with independent reference codecs/models",
            },
        ],
        "checks": checks,
        "not_applicable": na,
        "notes": "All checks run the current working tree of /repo (VERIF_REPO overrides) in a fresh interpreter with a private, "
        "empty bytecode cache. Exit 2 = harness error (never a verdict).",
    }
    with open(os.path.join(HERE, "MANIFEST.json"), "w", encoding="utf-8") as fh:
        json.dump(man, fh, indent=1)
        fh.write("\n")
    try:
        import jsonschema

        jsonschema.validate(man, json.load(open("/root/.vp/MANIFEST.schema.json")))
        print("MANIFEST.json valid;", len(checks), "checks,", len(na), "not_applicable")
    except ImportError:
        print("jsonschema not available; wrote MANIFEST.json unvalidated")
    return 0


if __name__ == "__main__":
    sys.exit(main())
