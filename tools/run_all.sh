#!/bin/bash
# usage: tools/run_all.sh [tier]   - runs every registered check on the current tree, prints one line each
tier=${1:-quick}
cd /verif
ids=$(python3 -c "import json;print(' '.join(c['property_id'] for c in json.load(open('MANIFEST.json'))['checks']))")
rc_all=0
for id in $ids; do
  out=$(/venv/bin/python -B -m mc.run $id --tier $tier 2>&1); rc=$?
  line=$(echo "$out" | grep "^\[$id\]" | cut -c1-160)
  echo "$id rc=$rc $line"
  [ $rc -ne 0 ] && { rc_all=1; echo "$out" | grep -E "VIOLATION|HARNESS|key=" | head -5; }
done
exit $rc_all
