#!/bin/bash
# usage: tools/try_mutant.sh <patch.diff> <tier> <ID> [ID...]
# Applies the patch to a scratch worktree of /repo (outside /repo and /verif), runs the named checks
# against it via VERIF_REPO, prints their verdicts and removes the worktree again.
set -u
patch=$(realpath "$1"); tier=$2; shift 2
wt=$(mktemp -d /tmp/mut-XXXXXX)
rmdir "$wt"
git -C /repo worktree add -q --detach "$wt" HEAD || exit 3
trap 'git -C /repo worktree remove --force "$wt" >/dev/null 2>&1; rm -rf "$wt"' EXIT
if ! git -C "$wt" apply "$patch"; then echo "PATCH DOES NOT APPLY"; exit 3; fi
cd /verif
for id in "$@"; do
  out=$(VERIF_REPO="$wt" VERIF_NO_EVIDENCE=1 /venv/bin/python -B -m mc.run "$id" --tier "$tier" 2>&1); rc=$?
  echo "== $id rc=$rc"
  echo "$out" | grep -E "VIOLATION|KNOWN-FINDING|HARNESS-ERROR|key=|clause=" | head -12
done
