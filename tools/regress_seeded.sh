#!/bin/bash
# usage: tools/regress_seeded.sh [tier] [ID-prefix]  - runs every stored seeded change against the check of its own property
# (scratch worktree per change, removed afterwards); prints CAUGHT/MISSED per change and a summary; exit 1 if any is missed.
tier=${1:-quick}; pre=${2:-}
cd /verif
miss=0; n=0
for d in seeded/${pre}*; do
  [ -f "$d/patch.diff" ] || continue
  id=$(basename "$d"); prop=${id%%-*}
  if grep -q '"obsolete"' "$d/meta.json" 2>/dev/null; then echo "OBSOLETE $id (no longer breaks the property on the repaired tree, see meta.json)"; continue; fi
  with=$(python3 -c "import json,sys; print(json.load(open(sys.argv[1])).get('regress_with',''))" "$d/meta.json" 2>/dev/null)
  [ -n "$with" ] && prop=$with  # reported only by the check of the property that owns the behaviour (see meta.json)
  out=$(tools/try_mutant.sh "$d/patch.diff" "$tier" "$prop" 2>&1)
  n=$((n+1))
  if echo "$out" | grep -q "^VIOLATION"; then echo "CAUGHT $id${with:+ (by $with)}"; 
  elif echo "$out" | grep -q "PATCH DOES NOT APPLY"; then echo "STALE  $id (patch no longer applies to the repaired tree)";
  else echo "MISSED $id $(echo "$out" | grep -E 'rc=|HARNESS' | head -2 | tr '\n' ' ')"; miss=$((miss+1)); fi
done
echo "seeded changes run: $n, missed: $miss"
[ $miss -eq 0 ]
