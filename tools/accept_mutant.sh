#!/bin/bash
# usage: tools/accept_mutant.sh <cNN> <n> [tier] [extra check ids...]
# Confirms a sub-agent's mutant in its scratch worktree (/tmp/wt-<cNN>): demo passes clean, fails mutated,
# pinned test-suite still passes mutated; then runs our check(s) against it and stores it under seeded/.
set -u
p=$1; n=$2; tier=${3:-quick}; shift 3 2>/dev/null || shift $#
ID=$(echo "$p" | tr a-z A-Z)
wt=/tmp/wt-$p; diff=$wt/mutant$n.diff; demo=$wt/demo$n.py
[ -f "$diff" ] && [ -f "$demo" ] || { echo "missing $diff or $demo"; exit 3; }
cd "$wt" || exit 3
git checkout -q -- aioesphomeapi
runner="/venv/bin/python $demo"
grep -q "^def test_\|^async def test_" "$demo" && ! grep -q "__main__" "$demo" && runner="/venv/bin/python -m pytest -q -p no:cacheprovider $demo"
PYTHONPATH=$wt timeout 300 $runner >/tmp/acc-clean.log 2>&1; c=$?
git apply "$diff" || { echo "diff does not apply"; exit 3; }
PYTHONPATH=$wt timeout 300 $runner >/tmp/acc-mut.log 2>&1; m=$?
t=$(PYTHONPATH=$wt /venv/bin/python -m pytest -q -p no:cacheprovider --timeout=900 tests 2>&1 | tail -1)
git checkout -q -- aioesphomeapi
echo "demo clean rc=$c  mutated rc=$m  tests: $t"
ok=1; [ $c -eq 0 ] || ok=0; [ $m -ne 0 ] || ok=0; echo "$t" | grep -q "1 failed, 401 passed" || ok=0
cd /verif
res=$(tools/try_mutant.sh "$diff" "$tier" "$ID" "$@" 2>&1); echo "$res"
det=$(echo "$res" | grep -c "^VIOLATION")
if [ $ok -eq 1 ]; then
  d=seeded/$ID-$n; mkdir -p "$d"; cp "$diff" "$d/patch.diff"; cp "$demo" "$d/demo.py"
  [ -f "$wt/NOTE.md" ] && cp "$wt/NOTE.md" "$d/NOTE.agent.md"
  caught=$(echo "$res" | awk '/^== /{id=$2} /^VIOLATION/{print id}' | sort -u | tr '\n' ' ')
  cat > "$d/meta.json" <<EOT
{
 "breaks": "$ID",
 "source": "independent sub-agent given only the property text and a scratch worktree",
 "confirmed": {"demo_on_clean_tree_rc": $c, "demo_on_mutated_tree_rc": $m, "pinned_tests_on_mutated_tree": "$t"},
 "our_checks_run": "tier=$tier $ID $*",
 "caught_by": "$caught",
 "needs": "see NOTE.agent.md"
}
EOT
  echo "STORED $d caught_by=[$caught]"
else
  echo "NOT CONFIRMED (kept nothing)"
fi
